#!/bin/bash
# usage: tools/try_patch.sh <patch-file | revert:<commit>> PROP [tier]   -- runs a check against a scratch worktree with the change applied
set -u
P=$1; PROP=$2; TIER=${3:-quick}
WT=/tmp/wt/tp.$$
mkdir -p /tmp/wt
git -C /repo worktree add -q --detach "$WT" HEAD || exit 2
cd "$WT" || exit 2
if [[ $P == revert:* ]]; then git show "${P#revert:}" | git apply -R || { echo "cannot revert"; cd /; git -C /repo worktree remove --force "$WT"; exit 2; }
else git apply "$P" || { echo "cannot apply $P"; cd /; git -C /repo worktree remove --force "$WT"; exit 2; }; fi
cd /verif
VERIF_REPO=$WT VERIF_NO_EVIDENCE=1 ./check "$PROP" "$TIER" 2>&1 | tail -${TAILN:-8}
rc=${PIPESTATUS[0]}
VERIF_REPO=$WT /venv/bin/python -c "from vf import env; env.clean_scratch_build()"
git -C /repo worktree remove --force "$WT"
echo "rc=$rc"
