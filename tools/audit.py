#!/usr/bin/env python3
"""Sensitivity audit: apply every planted change (mutants/*.diff, seeded/*/patch.diff) to a scratch worktree and run the
quick check of its property.  Writes MUTATION_AUDIT.md.  usage: tools/audit.py [name-substring ...]"""
import glob, json, os, re, subprocess, sys, time
V = os.path.dirname(os.path.dirname(os.path.abspath(__file__)))
items = []
for f in sorted(glob.glob(os.path.join(V, "mutants", "*.diff"))):
    items.append((os.path.basename(f)[:-5], os.path.basename(f)[:3], f, "hand-planted"))
for d in sorted(glob.glob(os.path.join(V, "seeded", "*"))):
    if not os.path.exists(os.path.join(d, "meta.json")):
        continue
    m = json.load(open(os.path.join(d, "meta.json")))
    if m.get("masked_by_known_finding"):
        m["property"] = m["caught_by"][0]   # run the check that does catch it (see meta.json history)
    if m.get("neutralised_by"):
        continue   # no longer property-breaking on the current tree (see meta.json history)
    items.append(("seeded/" + os.path.basename(d), m["property"], os.path.join(d, "patch.diff"), "independent sub-agent"))
sel = [a for a in sys.argv[1:] if not a.startswith("--")]
shard = next((a[8:] for a in sys.argv[1:] if a.startswith("--shard=")), None)      # --shard=k/n : every n-th item, rows dumped to .work/audit.k.json
rows = []
if "--merge" in sys.argv:
    items = []
for idx, (name, prop, patch, origin) in enumerate(items):
    if sel and not any(s in name for s in sel):
        continue
    if shard and idx % int(shard.split("/")[1]) != int(shard.split("/")[0]):
        continue
    wt = f"/tmp/wt/audit.{os.getpid()}"
    subprocess.run(["git", "-C", "/repo", "worktree", "add", "-q", "--detach", wt, "HEAD"], check=True)
    try:
        a = subprocess.run(["git", "apply", patch], cwd=wt, capture_output=True, text=True)
        if a.returncode:   # later fix commits touched the same lines: fall back to a three-way merge of the patch
            a = subprocess.run(["git", "apply", "--3way", patch], cwd=wt, capture_output=True, text=True)
            if a.returncode == 0 and subprocess.run(["git", "diff", "--name-only", "--diff-filter=U"], cwd=wt, capture_output=True, text=True).stdout.strip():
                a.returncode = 1
        if a.returncode:
            rows.append((name, prop, origin, "patch no longer applies", "", ""))
            continue
        t0 = time.time()
        r = subprocess.run(["./check", prop, "quick"], cwd=V, env=dict(os.environ, VERIF_REPO=wt), capture_output=True, text=True)
        subs = sorted(set(re.findall(r"^  \[([a-z_0-9]+)/", r.stdout, re.M)))
        rows.append((name, prop, origin, {0: "MISSED", 1: "caught", 2: "harness error"}.get(r.returncode, str(r.returncode)), ", ".join(subs), f"{time.time() - t0:.0f}s"))
    finally:
        subprocess.run([sys.executable, "-c", "from vf import env; env.clean_scratch_build()"], cwd=V, env=dict(os.environ, VERIF_REPO=wt, PYTHONPATH=V))
        subprocess.run(["git", "-C", "/repo", "worktree", "remove", "--force", wt])
    print(rows[-1], flush=True)
if shard:
    os.makedirs(os.path.join(V, ".work"), exist_ok=True)
    json.dump(rows, open(os.path.join(V, ".work", f"audit.{shard.split('/')[0]}.json"), "w"))
elif "--merge" in sys.argv:
    rows = sorted(sum((json.load(open(f)) for f in glob.glob(os.path.join(V, ".work", "audit.*.json"))), []), key=lambda r: r[0])
if ("--merge" in sys.argv) or (not sel and not shard):
    with open(os.path.join(V, "MUTATION_AUDIT.md"), "w") as f:
        f.write("# Sensitivity audit (quick tier, VERIF_SEED=1)\n\nEvery change below compiles and passes the repository's own test-suite (no new failure against the sandbox baseline).\n"
                "`caught` = the property's quick check exits 1 with a VIOLATION line on a scratch worktree carrying the change.\n\n| change | property | origin | quick check | sub-checks that fired | wall |\n|---|---|---|---|---|---|\n")
        for r in rows:
            f.write("| " + " | ".join(r) + " |\n")
        c = sum(1 for r in rows if r[3] == "caught")
        f.write(f"\n{c} of {len(rows)} caught.\n")
