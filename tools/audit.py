#!/usr/bin/env python3
"""Sensitivity audit: apply every planted change (mutants/*.diff, seeded/*/patch.diff) to a scratch worktree and run the
quick check of its property.  Writes MUTATION_AUDIT.md.  usage: tools/audit.py [name-substring ...]"""
import glob, json, os, re, subprocess, sys, time
V = os.path.dirname(os.path.dirname(os.path.abspath(__file__)))
items = []
for f in sorted(glob.glob(os.path.join(V, "mutants", "*.diff"))):
    items.append((os.path.basename(f)[:-5], os.path.basename(f)[:3], f, "hand-planted"))
for d in sorted(glob.glob(os.path.join(V, "seeded", "*"))):
    if not os.path.exists(os.path.join(d, "meta.json")):
        continue
    m = json.load(open(os.path.join(d, "meta.json")))
    if m.get("masked_by_known_finding"):
        m["property"] = m["caught_by"][0]   # run the check that does catch it (see meta.json history)
    if m.get("neutralised_by"):
        continue   # no longer property-breaking on the current tree (see meta.json history)
    items.append(("seeded/" + os.path.basename(d), m["property"], os.path.join(d, "patch.diff"), "independent sub-agent"))
sel = [a for a in sys.argv[1:] if not a.startswith("--")]
shard = next((a[8:] for a in sys.argv[1:] if a.startswith("--shard=")), None)      # --shard=k/n : every n-th item, rows dumped to .work/audit.k.json
rows = []
if "--merge" in sys.argv:
    items = []
for idx, (name, prop, patch, origin) in enumerate(items):
    if sel and not any((s[:-1] == name) if s.endswith('$') else (s in name) for s in sel):
        continue
    if shard and idx % int(shard.split("/")[1]) != int(shard.split("/")[0]):
        continue
    wt = f"/tmp/wt/audit.{os.getpid()}"
    subprocess.run(["git", "-C", "/repo", "worktree", "add", "-q", "--detach", wt, "HEAD"], check=True)
    try:
        a = subprocess.run(["git", "apply", patch], cwd=wt, capture_output=True, text=True)
        if a.returncode:   # later fix commits touched the same lines: fall back to a three-way merge of the patch
            a = subprocess.run(["git", "apply", "--3way", patch], cwd=wt, capture_output=True, text=True)
            if a.returncode == 0 and subprocess.run(["git", "diff", "--name-only", "--diff-filter=U"], cwd=wt, capture_output=True, text=True).stdout.strip():
                a.returncode = 1
        if a.returncode:
            rows.append((name, prop, origin, "patch no longer applies", "", ""))
            continue
        t0 = time.time()
        r = subprocess.run(["./check", prop, "quick"], cwd=V, env=dict(os.environ, VERIF_REPO=wt), capture_output=True, text=True)
        subs = sorted(set(re.findall(r"^  \[([a-z_0-9]+)/", r.stdout, re.M)))
        verdict = {0: "MISSED", 1: "caught", 2: "harness error"}.get(r.returncode, str(r.returncode))
        if verdict == "caught" and "VIOLATION property=" not in r.stdout:
            verdict = "harness error (exit 1 without a VIOLATION line)"
        rows.append((name, prop, origin, verdict, ", ".join(subs), f"{time.time() - t0:.0f}s"))
    finally:
        subprocess.run(["/venv/bin/python", "-c", "from vf import env; env.clean_scratch_build()"], cwd=V, env=dict(os.environ, VERIF_REPO=wt, PYTHONPATH=V))
        subprocess.run(["git", "-C", "/repo", "worktree", "remove", "--force", wt])
    print(rows[-1], flush=True)
outk = next((a[6:] for a in sys.argv[1:] if a.startswith("--out=")), None)          # --out=name : dump the rows of a selected re-run to .work/audit.name.json
if outk:
    os.makedirs(os.path.join(V, ".work"), exist_ok=True)
    json.dump(rows, open(os.path.join(V, ".work", f"audit.{outk}.json"), "w"))
if shard:
    os.makedirs(os.path.join(V, ".work"), exist_ok=True)
    json.dump(rows, open(os.path.join(V, ".work", f"audit.{shard.split('/')[0]}.json"), "w"))
elif "--merge" in sys.argv:
    byname = {}
    for f in sorted(glob.glob(os.path.join(V, ".work", "audit.*.json")), key=lambda f: (os.path.basename(f).startswith("audit.re"), f)):
        for r in json.load(open(f)):
            byname[r[0]] = r                      # a later re-run (audit.re*.json) replaces the row of the first pass
    def _neutralised(name):
        mp = os.path.join(V, name, "meta.json")
        return name.startswith("seeded/") and os.path.exists(mp) and json.load(open(mp)).get("neutralised_by")
    rows = sorted((r for n, r in byname.items() if not _neutralised(n)), key=lambda r: r[0])
if ("--merge" in sys.argv) or (not sel and not shard):
    with open(os.path.join(V, "MUTATION_AUDIT.md"), "w") as f:
        f.write("# Sensitivity audit (quick tier, VERIF_SEED=1)\n\nEvery change below compiles and passes the repository's own test-suite (no new failure against the sandbox baseline).\n"
                "`caught` = the property's quick check exits 1 with a VIOLATION line on a scratch worktree carrying the change.\n\n| change | property | origin | quick check | sub-checks that fired | wall |\n|---|---|---|---|---|---|\n")
        stale = 0
        for r in rows:
            r = list(r)
            if r[3] == "patch no longer applies":
                stale += 1
                mp = os.path.join(V, r[0], "meta.json") if r[0].startswith("seeded/") else None
                if mp and os.path.exists(mp):
                    m = json.load(open(mp))
                    r[3] = (f"patch conflicts with later fix commits on the same lines; when verified at {m.get('verified_at_repo_commit', '?')}: "
                            + ("caught by " + ", ".join(m.get("caught_by") or []) if m.get("caught_by") else "see meta.json"))
                else:
                    r[3] = "patch conflicts with later fix commits on the same lines; caught in the audits run before those commits (git log -p MUTATION_AUDIT.md)"
            f.write("| " + " | ".join(r) + " |\n")
        c = sum(1 for r in rows if r[3] == "caught")
        f.write(f"\n{c} of {len(rows) - stale} applicable changes caught on the current tree; {stale} older patches no longer apply to it (each was caught at the commit it was "
                "verified at, see the row).  Not listed: changes whose meta.json carries `neutralised_by` (a later repair of the tree made them harmless).\n")
