#!/usr/bin/env python3
"""Prints the markdown table of seeded/*/meta.json (used for DESIGN.md section 6)."""
import glob, json, os
V = os.path.dirname(os.path.dirname(os.path.abspath(__file__)))
rows = []
for d in sorted(glob.glob(os.path.join(V, "seeded", "*"))):
    if not os.path.exists(os.path.join(d, "meta.json")):
        continue
    m = json.load(open(os.path.join(d, "meta.json")))
    name = os.path.basename(d)
    c = m.get("checks", {}).get(m["property"], {})
    subs = sorted({l.split("]")[0].strip(" [").split("/")[0] for l in c.get("first", []) if l.strip().startswith("[")})
    h = m.get("history", "")
    hist = ("not caught by its own property's check: masked by known finding " + m["masked_by_known_finding"] + "; caught by " + ", ".join(m.get("caught_by", [])) if m.get("masked_by_known_finding")
            else "neutralised by a repair of the tree (" + m["neutralised_by"] + "): no longer property-breaking; caught on the tree before it" if m.get("neutralised_by")
            else "initially MISSED, caught after strengthening" if h.startswith("MISSED") else "not caught - by design (undocumented threshold, property still holds)" if h.startswith("NOT CAUGHT")
            else "caught" if m.get("caught_by") else "MISSED")
    rows.append(f"| {name} | {m.get('what','')[:150]} | {m.get('needs_to_manifest','')[:170]} | {hist} | {', '.join(subs)} |")
print("| change | what was changed | needs, to manifest | quick check | first sub-check(s) to fire |\n|---|---|---|---|---|")
print("\n".join(rows))
