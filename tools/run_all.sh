#!/bin/bash
# usage: [PROPS="C02 C17"] tools/run_all.sh [quick|thorough] [seed ...]   -- runs every registered check (or those in PROPS), prints one line each
cd "$(dirname "$0")/.." || exit 2
TIER=${1:-quick}; shift; SEEDS=${@:-1}
for s in $SEEDS; do
  for p in ${PROPS:-$(python3 -c "import json;print(' '.join(c['property_id'] for c in json.load(open('MANIFEST.json'))['checks']))")}; do
    out=$(VERIF_SEED=$s ./check $p $TIER 2>&1); rc=$?
    echo "seed=$s $p rc=$rc $(echo "$out" | grep -E "^C[0-9]+ (quick|thorough)" | tail -1)"
    if [ $rc -ne 0 ]; then echo "$out" | grep -v "^KNOWN" | tail -12; fi
  done
done
