#!/usr/bin/env python3
"""Regenerates /verif/MANIFEST.json from the table below and the property modules present."""
import json, os
V = os.path.dirname(os.path.dirname(os.path.abspath(__file__)))
CHECKS = {
 # id: (technique, level text, level note, design ref)
 "C01": ("Hypothesis-generated (zone, zone, instant-near-transition, tzinfo kind) cases incl. alias values (other pass of a repeated hour) + enumeration of every tz transition; differential against native zoneinfo rendering and integer-instant oracle; RuleBasedStateMachine history (conversions, arithmetic, copies, global switches) with the oracle checked after every step",
         "Generated-input search: every conversion entry point is compared, per case, with the native zoneinfo rendering of the same integer instant; thorough tier visits every enumerated transition of every zone. Not a proof: absence is only established on the enumerated transition x probe set.",
         "Trusts CPython zoneinfo + installed tzdata as 'the tz database'; pytz/dateutil sources only where their own offset agrees with zoneinfo.", "4/C01"),
 "C02": ("Hypothesis over (zone, wall tuple on/around gap+overlap edges, fold, raise flag, entry point) + exhaustive walk over enumerated gaps/overlaps; pre-image oracle computed from native zoneinfo",
         "Generated-input search against an independent pre-image oracle (set of instants whose native rendering has the given wall fields).",
         "Trusts zoneinfo/tzdata; compound geometries (wall value with >2 pre-images or a shift landing in another transition) only checked for validity.", "4/C02"),
 "C03": ("Hypothesis over (zone|naive, instant near transition, mixed-sign fixed-unit amounts, operator); integer-microsecond oracle + native rendering; add/subtract round trip",
         "Generated-input search with an exact integer oracle.", "Trusts zoneinfo/tzdata; amounts limited to |total| <= 1e9 s as the property states.", "4/C03"),
 "C04": ("Hypothesis over (zone|naive|Date, month-end/leap/transition-biased start, mixed-sign calendar amounts) + exhaustive month-day x delta-month table; reference shift model cross-checked with dateutil.relativedelta; metamorphic relations add(-a)==subtract(a), dt-d==dt+(-d)",
         "Generated-input search against a 10-line reference model plus metamorphic relations.", "Reference model = months arithmetic, clamp, native timedelta; landing wall time resolved by the C02 oracle.", "4/C04"),
 "C05": ("Hypothesis over ordered DateTime pairs (same object/name/different zones, fixed offsets, naive, Date) around transitions and folds; integer-instant oracle for length, truncations, negation, abs",
         "Generated-input search with exact integer oracle (exact below 2^33 s, 64 us tolerance beyond, as stated).", "Trusts zoneinfo/tzdata. The former known finding K-C05-1 (same-tzinfo pairs whose wall order differs from their instant order: magnitude forms negated) was repaired (4681d75); its predicate now reports a violation.", "4/C05 and 0.2"),
 "C06": ("Exhaustive enumeration of date pairs in leap-containing windows + Hypothesis datetime pairs; validity oracle (ranges + add-back) and Python<->Rust differential",
         "Exhaustive over the enumerated date-pair windows, sampled elsewhere; any decomposition satisfying ranges + add-back is accepted.", "Add-back uses pendulum's own add(), itself checked by C04.", "4/C06"),
 "C07": ("Constructive generation: dates/times rendered by an independent formatter in every ISO form (exhaustive over all dates 1583..9999 in thorough), parsed by both backends and compared with the source value; negative space of impossible dates",
         "Exhaustive over dates for the date forms (thorough), sampled for date-time combinations; round-trip + differential oracle.", "My own renderer defines 'well-formed'; forms on which backends merely disagree about acceptance and that are not in the statement are not asserted.", "4/C07"),
 "C08": ("Hypothesis over DateTimes x tokens x locales: independent token renderer from stdlib + locale tables; from_format(format()) round-trip over grammar-built formats; exhaustive locale x month x weekday name round-trip",
         "Generated-input search with an independent renderer and a round-trip oracle.", "Locale data tables are read as data (not re-derived from CLDR).", "4/C08"),
 "C09": ("Hypothesis over mixed-sign integer argument tuples; oracle = native timedelta + integer microsecond decomposition",
         "Generated-input search with exact integer oracle.", "Component clauses asserted in the float-exact range (|rest| < 2^31 s) as the property states.", "4/C09"),
 "C10": ("Hypothesis over operand pairs (Duration, Duration|timedelta|int|float), ties included; differential against the same operator on native timedelta twins",
         "Generated-input differential against the standard library.", "Trusts CPython timedelta arithmetic.", "4/C10"),
 "C11": ("Hypothesis over values/pairs x zones x folds; native-twin substitution oracle for every accessor and operator",
         "Generated-input differential against native twins built with the same tzinfo object (aware) or the same fields and fold under a switched local zone (naive).", "Contradictory readings (same-zone pairs straddling a fold) are checked against the native behaviour only.", "4/C11"),
 "C12": ("Hypothesis over (zone, instant biased to skipped/repeated unit boundaries, provenance, unit, week config) + enumeration of transitions touching boundaries; oracle from local fields + pre-image oracle",
         "Generated-input search; fully asserted where the unit boundary exists once, candidate-set oracle where it is skipped/repeated.", "Trusts zoneinfo/tzdata. Inside a repeated period second/minute/hour may stay in the value's own occurrence (pinned by the repository's tests); the former known finding K-C12-1 was repaired (205b322, a574970) and its predicate now reports a violation.", "4/C12 and 0.2"),
 "C13": ("Hypothesis over ISO duration component tuples/fractions and interval forms; exact rational oracle (fractions.Fraction); backend differential",
         "Generated-input search with exact rational oracle.", "Known fraction/overflow findings are excluded by input predicates.", "4/C13"),
 "C14": ("Hypothesis over values of every type x pickle protocols 0-5 x copy x deepcopy + enumeration of every overlap of every zone (both folds); observer-tuple equality oracle",
         "Generated-input round-trip.", "Observer tuple = public accessors listed in the statement.", "4/C14"),
 "C15": ("Exhaustive enumeration of all years and all dates (thorough) against calendar/datetime stdlib + Python<->Rust differential; Hypothesis for local_time and for getters of one instant rendered in several zones",
         "Exhaustive over years and (thorough) all 3,652,059 dates; sampled for timestamps.", "Trusts CPython's calendar/datetime.", "4/C15"),
 "C16": ("Enumeration of every month shape x weekday x n plus Hypothesis over zones with skipped midnights; brute-force datetime.date oracle",
         "Exhaustive over month shapes for Date/UTC, sampled for zones.", "Target days that do not exist in the zone (a whole day skipped) are outside the asserted domain; the former known finding K-C12-1 (walks touching a skipped/repeated midnight) was repaired and is asserted strictly.", "4/C16 and 0.2"),
 "C17": ("exhaustive single-character-edit enumeration of valid forms + grammar-plus-edits Hypothesis strategy over both backends and all options; exception bucketing by (type, innermost pendulum frame); atheris coverage-guided fuzzing of parse() with the same oracle in the target",
         "Exhaustive first ring (every single-character edit of 35 seed forms, ~107k strings) + Hypothesis grammar-plus-edits search (0-2 edits, foreign characters, long digit runs, all options) + coverage-guided fuzzing (atheris/libFuzzer, oracle inside the target); never proves absence beyond the enumerated ring.", "Strict clause checked through a necessary condition (ISO alphabet); every escape found on the pinned commit was repaired in /repo (fixed entries in known_findings.json); a libFuzzer campaign is only approximately reproducible - the saved input is the replay unit.", "4/C17 and 0.2"),
 "C18": ("Exhaustive product locales x units x counts x flags; phrase reconstructed independently from locale data; Hypothesis instant pairs for direction/magnitude",
         "Exhaustive over the locale x unit x count x flag product.", "Locale tables are the source of expected templates.", "4/C18"),
 "C19": ("Hypothesis over intervals (forward/inverted/absolute, zones, Date) x units x steps; oracle = independently computed start.add(unit=k*n) sequence",
         "Generated-input search with reference sequence.", "Uses add() (checked by C03/C04) to build the reference sequence from the start.", "4/C19"),
 "C20": ("Hypothesis over times of day x mixed-sign amounts x timedeltas x candidate triples; oracle = integer microseconds modulo 86400e6",
         "Generated-input search with exact modular-arithmetic oracle.", "Naive Time values only.", "4/C20"),
}
checks = []
na = []
for pid in sorted(CHECKS):
    tech, text, note, ref = CHECKS[pid]
    if os.path.exists(os.path.join(V, "vf", "props", pid.lower() + ".py")):
        checks.append({"property_id": pid, "quick_cmd": f"./check {pid} quick", "thorough_cmd": f"./check {pid} thorough",
                       "evidence_file": f"evidence/{pid}.json", "replay_cmd_template": f"./check {pid} --replay {{path}}",
                       "engine": "vf", "level_claimed": {"category": "exploration", "text": text, "design_ref": "DESIGN.md §" + ref},
                       "level_note": note, "technique": "property-based testing: " + tech})
    else:
        na.append({"property_id": pid, "reason": "check not built yet in this revision (planned: property-based check per DESIGN.md §" + ref + ")"})
m = {"version": 1,
     "setup_cmd": "/venv/bin/python -m vf.setup",
     "hooks": {"guard": "PENDULUM_VERIF", "enable": "no source hooks are needed: checks import pendulum from /repo/src and build rust/ themselves into /verif/.build",
               "baseline_off_cmd": "cd /repo && /venv/bin/python -m pytest -ra -q -p no:cacheprovider --timeout=900 --continue-on-collection-errors",
               "source_commits": [], "add_only": True},
     "engines": [{"name": "vf", "path": "vf/runner.py", "serves_properties": [c["property_id"] for c in checks],
                  "kind_free_text": "Hypothesis (incl. RuleBasedStateMachine) + exhaustive enumerators + atheris, 16 worker processes, explicit oracles, JSON replay files"}],
     "checks": checks, "not_applicable": na,
     "notes": "All checks: ./check CNN quick|thorough (cwd=/verif); exit 0 held, 1 + VIOLATION line, 2 harness error. Known findings: known_findings.json."}
json.dump(m, open(os.path.join(V, "MANIFEST.json"), "w"), indent=1)
print("checks:", [c["property_id"] for c in checks], "n/a:", len(na))
