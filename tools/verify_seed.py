#!/usr/bin/env python3
"""Confirm an independently written property-breaking change and run my checks against it.

usage: tools/verify_seed.py CNN [--src /tmp/seed/CNN] [--name CNN] [--props C01,C03] [--tier quick]
Reads the uncommitted diff of the sub-agent's worktree (or seeded/<name>/patch.diff if it exists), then in a FRESH scratch
worktree of /repo: (1) demo on the unmodified tree must exit 0; (2) apply the patch (rebuild the extension if rust/ changed);
(3) demo must exit non-zero; (4) the repo's test-suite shows no new failure against the sandbox baseline, with and without
the compiled extensions; (5) run ./check for the property (and any extra ones) with VERIF_REPO aimed at the worktree.
Writes seeded/<name>/{patch.diff, demo.py, notes.md, meta.json}.
"""
import argparse, json, os, shutil, subprocess, sys, time

V = os.path.dirname(os.path.dirname(os.path.abspath(__file__)))
PY = "/venv/bin/python"
SO = "src/pendulum/_pendulum.cpython-312-x86_64-linux-gnu.so"


def sh(cmd, **kw):
    return subprocess.run(cmd, shell=isinstance(cmd, str), capture_output=True, text=True, **kw)


def suite(wt, ext):
    env = dict(os.environ, PYTHONPATH=f"{wt}/src", PENDULUM_EXTENSIONS=ext)
    r = sh(f"cd {wt} && {PY} -m pytest -q -p no:cacheprovider tests 2>&1 | grep -E '^(FAILED|ERROR)' | sed 's/ - .*//' | sort", env=env)
    now = set(r.stdout.split("\n")) - {""}
    base = set(open("/scratch/base_fail.txt").read().split("\n")) - {""}
    return sorted(now - base)


def main():
    ap = argparse.ArgumentParser()
    ap.add_argument("prop")
    ap.add_argument("--src")
    ap.add_argument("--name")
    ap.add_argument("--props")
    ap.add_argument("--tier", default="quick")
    a = ap.parse_args()
    prop = a.prop
    name = a.name or prop
    src = a.src or f"/tmp/seed/{prop}"
    out = os.path.join(V, "seeded", name)
    os.makedirs(out, exist_ok=True)
    patch = os.path.join(out, "patch.diff")
    if not os.path.exists(patch):
        d = sh(["git", "-C", src, "diff"]).stdout
        if not d.strip():
            print("no diff in", src); return 2
        open(patch, "w").write(d)
        for ext, dst in ((".demo.py", "demo.py"), (".notes.md", "notes.md")):
            f = f"/tmp/seed/{prop}{ext}"
            if os.path.exists(f):
                shutil.copy(f, os.path.join(out, dst))
    demo = os.path.join(out, "demo.py")
    wt = f"/tmp/wt/seedv.{name}.{os.getpid()}"
    os.makedirs("/tmp/wt", exist_ok=True)
    sh(["git", "-C", "/repo", "worktree", "add", "-q", "--detach", wt, "HEAD"])
    keep = {}
    if os.path.exists(os.path.join(out, "meta.json")):
        try:
            old_meta = json.load(open(os.path.join(out, "meta.json")))
            keep = {k: old_meta[k] for k in ("what", "needs_to_manifest", "author", "history", "neutralised_by") if k in old_meta}   # my annotations survive a re-verification
        except Exception:
            keep = {}
    meta = {**keep, "property": prop, "name": name, "verified_at_repo_commit": sh(["git", "-C", "/repo", "rev-parse", "--short", "HEAD"]).stdout.strip(), "ran": []}
    try:
        shutil.copy(os.path.join("/repo", SO), os.path.join(wt, SO))
        env = dict(os.environ, PYTHONPATH=f"{wt}/src")
        env.pop("PENDULUM_EXTENSIONS", None)
        r0 = sh([PY, demo], env=env, cwd=wt)
        meta["demo_unmodified_exit"] = r0.returncode
        meta["ran"].append(f"PYTHONPATH=<wt>/src python demo.py  (unmodified) -> exit {r0.returncode}")
        ap_ = sh(["git", "apply", patch], cwd=wt)
        if ap_.returncode:
            print("patch does not apply:", ap_.stderr); meta["error"] = "patch does not apply"; return 2
        touched = sh(["git", "-C", wt, "diff", "--stat"]).stdout
        meta["files"] = [l.split("|")[0].strip() for l in touched.split("\n") if "|" in l]
        if any(f.startswith("rust/") for f in meta["files"]):
            tgt = f"/tmp/wt/target.{name}"
            b = sh(f"cd {wt}/rust && CARGO_TARGET_DIR={tgt} PYO3_PYTHON={PY} /root/.cargo/bin/cargo build --release --offline --quiet", env=dict(os.environ, CARGO_NET_OFFLINE="true"))
            if b.returncode:
                print("rust build failed", b.stderr[-2000:]); meta["error"] = "rust does not compile"; return 2
            shutil.copy(f"{tgt}/release/lib_pendulum.so", os.path.join(wt, SO))
            shutil.rmtree(tgt, ignore_errors=True)
            meta["ran"].append("cargo build --release --offline (rust/ changed), .so copied into the worktree")
        r1 = sh([PY, demo], env=env, cwd=wt)
        meta["demo_patched_exit"] = r1.returncode
        meta["demo_patched_output"] = (r1.stdout + r1.stderr)[-600:]
        meta["ran"].append(f"python demo.py (patched) -> exit {r1.returncode}")
        for ext in ("1", "0"):
            new = suite(wt, ext)
            meta[f"suite_new_failures_ext{ext}"] = new
            meta["ran"].append(f"PENDULUM_EXTENSIONS={ext} pytest tests -> new failures vs baseline: {len(new)}")
        checks = {}
        for p in (a.props.split(",") if a.props else [prop]):
            t0 = time.time()
            r = sh(["./check", p, a.tier], cwd=V, env=dict(os.environ, VERIF_REPO=wt))
            lines = [l for l in r.stdout.split("\n") if l.startswith("  [") or l.startswith("  case:")]
            checks[p] = {"exit": r.returncode, "tier": a.tier, "wall_s": round(time.time() - t0, 1), "violations": r.stdout.count("VIOLATION property="),
                         "first": [l[:400] for l in lines[:4]]}
            meta["ran"].append(f"VERIF_REPO=<wt> ./check {p} {a.tier} -> exit {r.returncode}")
        meta["checks"] = checks
        meta["confirmed"] = (meta["demo_unmodified_exit"] == 0 and meta["demo_patched_exit"] != 0 and not meta["suite_new_failures_ext1"] and not meta["suite_new_failures_ext0"])
        meta["caught_by"] = [p for p, c in checks.items() if c["exit"] == 1]
    finally:
        sh([PY, "-c", "from vf import env; env.clean_scratch_build()"], cwd=V, env=dict(os.environ, VERIF_REPO=wt, PYTHONPATH=V))
        sh(["git", "-C", "/repo", "worktree", "remove", "--force", wt])
        old = {}
        mp = os.path.join(out, "meta.json")
        if os.path.exists(mp):
            old = json.load(open(mp))
        for k in ("needs_to_manifest", "what", "kept"):
            if k in old:
                meta[k] = old[k]
        json.dump(meta, open(mp, "w"), indent=1)
    print(json.dumps({k: meta.get(k) for k in ("name", "confirmed", "demo_unmodified_exit", "demo_patched_exit", "suite_new_failures_ext1", "suite_new_failures_ext0", "caught_by", "files")}, indent=1))
    for p, c in meta.get("checks", {}).items():
        print(p, c["exit"], c["violations"], c["wall_s"], *c["first"][:2], sep="\n   ")
    return 0


if __name__ == "__main__":
    sys.exit(main())
