#!/usr/bin/env python3
"""For every fix commit: revert it in a scratch worktree, run the property's quick check, and harvest one shrunk failing case.
Writes tools/harvest_out.json : {commit: {"property":..., "examples":[{sub, backend, case, msg}], "note":...}}"""
import json, os, subprocess, sys, glob, shutil
V = os.path.dirname(os.path.dirname(os.path.abspath(__file__)))
PLAN = [  # (grep of subject, properties)
 ("zh locale before/after", ["C18"]), ("nl locale week_data", ["C18"]), ("from_format 'z' token", ["C08"]), ("Rust ordinal-to-date", ["C07"]),
 ("Rust parser accepts 'Thh:mm:ss'", ["C07"]), ("precise_diff only treats", ["C06"]), ("Rust precise_diff normalises", ["C06"]),
 ("Duration //, /, % and divmod", ["C10"]), ("Duration +, - and \\* int", ["C10"]), ("deepcopy keeps a Duration's weeks", ["C14"]),
 ("pickling or copying a Duration", ["C14"]), ("Time.diff counts microseconds", ["C20"]), ("rejects an hour without minutes", ["C17"]),
 ("interval halves of the wrong kind", ["C17"]), ("pickle and copy.copy keep", ["C14"]), ("DateTime - Duration subtracts", ["C04"]),
 ("instance() keeps the instant", ["C01"]), ("cannot loop forever", ["C16", "C12"]), ("Duration + Date applies", ["C04"]),
 ("Interval components honour the fold", ["C06"]), ("Interval takes its seconds", ["C06"]), ("ISO week dates with week 00", ["C07"]),
 ("Duration derives its components", ["C10"]), ("duration fractions are evaluated exactly (pure-Python", ["C13"]),
 ("too large to represent raises ParserError", ["C13", "C17"]), ("duration fractions are evaluated exactly (Rust", ["C13"]),
 ("rejects numbers that do not fit", ["C13"]), ("dateutil's arithmetic errors", ["C17"]), ("durations and interval endpoints out of range", ["C17", "C13"]),
 ("only accepts ASCII digits", ["C17"]), ("trailing newline", ["C17"]), ("accepts '|' as subsecond", ["C17"]), ("deepcopy of a Duration uses the same state", ["C14"]),
 ("Interval's length is exact beyond", ["C11"]), ("reads its values from the anchored match", ["C08"]),
]
import hashlib
outp = os.path.join(V, "tools", "harvest_out.json")
out = json.load(open(outp)) if os.path.exists(outp) else {}
ONLY = sys.argv[1:]
for pat, props in PLAN:
    c = subprocess.run(["git", "-C", "/repo", "log", "--format=%h %s", "--grep", pat], capture_output=True, text=True).stdout.strip().split("\n")
    if len(c) != 1 or not c[0]:
        print("AMBIGUOUS", pat, c); continue
    sha, subj = c[0].split(" ", 1)
    if (sha in out and (out[sha]["examples"] or out[sha].get("note")) and sha not in ONLY) or (ONLY and sha not in ONLY):
        continue
    wt = f"/tmp/wt/hv.{sha}"
    sr = os.path.join(V, ".work", "scratch-replays-" + hashlib.sha256(os.path.realpath(wt).encode()).hexdigest()[:8])
    subprocess.run(["git", "-C", "/repo", "worktree", "add", "-q", "--detach", wt, "HEAD"], check=True)
    diff = subprocess.run(["git", "-C", "/repo", "show", sha], capture_output=True, text=True).stdout
    r = subprocess.run(["git", "apply", "-R"], input=diff, text=True, cwd=wt, capture_output=True)
    rec = {"subject": subj, "properties": props, "examples": []}
    if r.returncode != 0:
        rec["note"] = "revert does not apply cleanly (later commits touch the same lines)"
    else:
        for prop in props:
            shutil.rmtree(sr, ignore_errors=True)
            env = dict(os.environ, VERIF_REPO=wt)
            try:
                rr = subprocess.run(["./check", prop, "quick"], cwd=V, env=env, capture_output=True, text=True, timeout=900)
            except subprocess.TimeoutExpired:
                rec.setdefault("rc", {})[prop] = "timeout"
                continue
            files = sorted(glob.glob(os.path.join(sr, f"{prop}-*.json")))
            rec.setdefault("rc", {})[prop] = rr.returncode
            for f in files[:2]:
                d = json.load(open(f))
                rec["examples"].append({"property": prop, "sub": d["sub"], "backend": d["backend"], "case": d["case"], "msg": d["msg"]})
        subprocess.run([sys.executable, "-c", "from vf import env; env.clean_scratch_build()"], cwd=V, env=dict(os.environ, VERIF_REPO=wt, PYTHONPATH=V))
    subprocess.run(["git", "-C", "/repo", "worktree", "remove", "--force", wt])
    out[sha] = rec
    print(sha, subj[:60], rec.get("rc"), len(rec["examples"]), rec.get("note", ""), flush=True)
    json.dump(out, open(os.path.join(V, "tools", "harvest_out.json"), "w"), indent=1)
