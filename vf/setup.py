"""setup_cmd: make third-party deps importable and build the Rust extension once."""
import sys
from vf import env
try:
    env.ensure_deps(need_atheris=True)
    so = env.build_rust()
    print("deps ok; rust built:", so)
except env.HarnessError as e:
    sys.stderr.write(f"setup failed: {e}\n")
    sys.exit(2)
