"""Environment bootstrap: third-party deps, repo path, Rust rebuild + import hook.

Nothing here is property specific.  Everything is a function of the tree under
VERIF_REPO (default /repo) and of files already on disk (no network).
"""
from __future__ import annotations

import fcntl
import hashlib
import importlib.abc
import importlib.machinery
import importlib.util
import os
import shutil
import subprocess
import sys

VERIF = os.path.dirname(os.path.dirname(os.path.abspath(__file__)))
REPO = os.path.abspath(os.environ.get("VERIF_REPO", "/repo"))
DEPS = os.path.join(VERIF, ".deps")
BUILD = os.path.join(VERIF, ".build")
WHEELS = "/opt/veriftools/wheels"
PY = sys.executable


class HarnessError(Exception):
    """Anything that is the machinery's fault: exit code 2, never VIOLATION."""


def _pip_target(pkgs: list[str]) -> None:
    if os.path.realpath(sys.prefix) != os.path.realpath("/venv"):
        # .deps holds packages for the repository's interpreter (/venv, cp312) only: a helper started under another python once filled it with
        # wheels of its own ABI and broke every later run
        raise HarnessError(f"refusing to install {pkgs} into {DEPS} from {sys.executable}: run the checks with /venv/bin/python")
    os.makedirs(DEPS, exist_ok=True)
    cmd = [PY, "-m", "pip", "install", "--quiet", "--no-index", "--find-links", WHEELS,
           "--target", DEPS, *pkgs]
    r = subprocess.run(cmd, capture_output=True, text=True)
    if r.returncode != 0:
        raise HarnessError(f"pip install {pkgs} failed: {r.stderr[-2000:]}")


def ensure_deps(need_atheris: bool = False) -> None:
    """Make hypothesis (and atheris) importable; install into /verif/.deps if not."""
    if DEPS not in sys.path and os.path.isdir(DEPS):
        sys.path.append(DEPS)
    missing = []
    for mod in ["hypothesis"] + (["atheris"] if need_atheris else []):
        if importlib.util.find_spec(mod) is None:
            missing.append(mod)
    if missing:
        lock = os.path.join(VERIF, ".deps.lock")
        with open(lock, "w") as lf:
            fcntl.flock(lf, fcntl.LOCK_EX)
            importlib.invalidate_caches()
            still = [m for m in missing if importlib.util.find_spec(m) is None]
            if still:
                _pip_target(still)
        if DEPS not in sys.path:
            sys.path.append(DEPS)
        importlib.invalidate_caches()
        for m in missing:
            if importlib.util.find_spec(m) is None:
                raise HarnessError(f"cannot make {m} importable")


def pythonpath() -> str:
    parts = [VERIF, os.path.join(REPO, "src")]
    if os.path.isdir(DEPS):
        parts.append(DEPS)
    return os.pathsep.join(parts)


# --------------------------------------------------------------------------- rust

def _cargo() -> str:
    c = shutil.which("cargo")
    if c:
        return c
    for cand in ("/root/.cargo/bin/cargo", os.path.expanduser("~/.cargo/bin/cargo")):
        if os.path.exists(cand):
            return cand
    raise HarnessError("cargo not found")


def rust_source_hash() -> str:
    h = hashlib.sha256()
    root = os.path.join(REPO, "rust")
    files = []
    for dp, dn, fn in os.walk(os.path.join(root, "src")):
        for f in sorted(fn):
            files.append(os.path.join(dp, f))
    files.sort()
    files += [os.path.join(root, "Cargo.toml"), os.path.join(root, "Cargo.lock")]
    for f in files:
        if os.path.exists(f):
            h.update(os.path.relpath(f, root).encode())
            h.update(open(f, "rb").read())
    h.update(sys.version.encode())
    return h.hexdigest()[:16]


def _path_tag() -> str:
    return hashlib.sha256(os.path.realpath(REPO).encode()).hexdigest()[:8]


def build_rust() -> str:
    """Build rust/ of the current tree; return the path of the fresh shared object.

    * cached by a hash of the crate's sources (content, not mtime);
    * one cargo target directory per source *path*: two checkouts sharing a target
      directory clobber each other's un-hashed deps/lib_pendulum.so while their
      fingerprints stay "fresh";
    * on a cache miss the crate's own fingerprint is dropped first, so cargo recompiles
      it even if the sources changed without their mtime moving forward;
    * serialised with a file lock so that 16 workers asking at once trigger one build.
    """
    os.makedirs(BUILD, exist_ok=True)
    ptag, tag = _path_tag(), rust_source_hash()
    out = os.path.join(BUILD, f"_pendulum-{ptag}-{tag}.so")
    if os.path.exists(out):
        return out
    with open(os.path.join(BUILD, f"cargo-{ptag}.lock"), "w") as lf:
        fcntl.flock(lf, fcntl.LOCK_EX)
        if os.path.exists(out):
            return out
        target = os.path.join(BUILD, f"cargo-{ptag}")
        main_target = os.path.join(BUILD, "cargo-" + hashlib.sha256(b"/repo").hexdigest()[:8])
        if not os.path.isdir(target) and os.path.isdir(main_target) and target != main_target:
            # reuse the compiled third-party crates of the main target directory
            shutil.copytree(main_target, target, symlinks=True)
        fp = os.path.join(target, "release", ".fingerprint")
        if os.path.isdir(fp):
            for d in os.listdir(fp):
                if d.startswith("_pendulum-"):
                    shutil.rmtree(os.path.join(fp, d), ignore_errors=True)
        for stale in (os.path.join(target, "release", "lib_pendulum.so"), os.path.join(target, "release", "deps", "lib_pendulum.so")):
            if os.path.exists(stale):
                os.remove(stale)
        env = dict(os.environ)
        env.update(CARGO_TARGET_DIR=target, CARGO_NET_OFFLINE="true", PYO3_PYTHON=PY)
        env["PATH"] = os.path.dirname(_cargo()) + os.pathsep + env.get("PATH", "")
        r = subprocess.run(
            [_cargo(), "build", "--release", "--offline", "--quiet"],
            cwd=os.path.join(REPO, "rust"), env=env, capture_output=True, text=True,
        )
        lib = os.path.join(target, "release", "lib_pendulum.so")
        if r.returncode != 0 or not os.path.exists(lib):
            raise HarnessError("cargo build failed:\n" + (r.stderr or r.stdout)[-4000:])
        tmp = out + f".tmp{os.getpid()}"
        shutil.copy2(lib, tmp)
        os.replace(tmp, out)
        # drop objects of earlier source states of the same checkout (disk hygiene)
        for f in os.listdir(BUILD):
            if f.startswith(f"_pendulum-{ptag}-") and f.endswith(".so") and f != os.path.basename(out):
                try:
                    os.remove(os.path.join(BUILD, f))
                except OSError:
                    pass
    return out


def clean_scratch_build() -> None:
    """remove the cargo target directory and objects of a scratch checkout (VERIF_REPO != /repo)"""
    if os.path.realpath(REPO) == "/repo":
        return
    ptag = _path_tag()
    shutil.rmtree(os.path.join(BUILD, f"cargo-{ptag}"), ignore_errors=True)
    for f in os.listdir(BUILD):
        if f.startswith(f"_pendulum-{ptag}-") or f == f"cargo-{ptag}.lock":
            try:
                os.remove(os.path.join(BUILD, f))
            except OSError:
                pass


class _RustFinder(importlib.abc.MetaPathFinder):
    def __init__(self, so: str):
        self.so = so

    def find_spec(self, fullname, path, target=None):
        if fullname == "pendulum._pendulum":
            loader = importlib.machinery.ExtensionFileLoader(fullname, self.so)
            return importlib.util.spec_from_file_location(fullname, self.so, loader=loader)
        return None


def install(backend: str = "rust", need_rust: bool = True) -> dict:
    """Prepare sys.path / meta_path for importing pendulum from the tree.

    backend: 'rust' -> PENDULUM_EXTENSIONS=1 (compiled helpers/parser used by the stack)
             'py'   -> PENDULUM_EXTENSIONS=0
    The freshly built shared object is always the one that `pendulum._pendulum`
    resolves to (also with backend 'py', for direct differentials) unless
    need_rust is False.
    """
    if "pendulum" in sys.modules:
        raise HarnessError("pendulum imported before env.install()")
    ensure_deps()
    src = os.path.join(REPO, "src")
    if not os.path.isdir(os.path.join(src, "pendulum")):
        raise HarnessError(f"no pendulum package under {src}")
    sys.path.insert(0, src)
    os.environ["PENDULUM_EXTENSIONS"] = "1" if backend == "rust" else "0"
    info = {"repo": REPO, "backend": backend, "rust_hash": None}
    if need_rust:
        so = build_rust()
        sys.meta_path.insert(0, _RustFinder(so))
        info["rust_hash"] = os.path.basename(so)
    import pendulum  # noqa: F401

    got = os.path.dirname(os.path.abspath(pendulum.__file__))
    if os.path.realpath(got) != os.path.realpath(os.path.join(src, "pendulum")):
        raise HarnessError(f"pendulum imported from {got}, expected {src}")
    if need_rust:
        import pendulum._pendulum as rs

        if os.path.realpath(rs.__file__) != os.path.realpath(info["rust_hash"] and os.path.join(BUILD, info["rust_hash"])):
            raise HarnessError(f"compiled module loaded from {rs.__file__}")
    import pendulum.helpers as H

    if backend == "py":
        ok = H.precise_diff.__module__ == "pendulum._helpers"
    else:
        import pendulum._pendulum as rs

        ok = H.precise_diff is rs.precise_diff
    if not ok:
        raise HarnessError(f"backend {backend} not in effect")
    return info
