"""History machine (DESIGN §4.21): one DateTime kept alive through a random sequence of operations.

Model: (u: integer microseconds since the epoch, zone: IANA name | fixed offset seconds).  After every step the
real value must render exactly as the native oracle renders the model.  The step list is JSON; `replay(steps)`
re-executes it without Hypothesis (that is what a replay file contains).
"""
from __future__ import annotations

import copy
import datetime as D
import pickle
import warnings

from hypothesis import strategies as st
from hypothesis.stateful import RuleBasedStateMachine, initialize, invariant, precondition, rule

import pendulum
from pendulum import DateTime
from vf import oracle_tz as T
from vf import strategies as S
from vf.core import Known, Skip, Violation, digest, req

warnings.simplefilter("ignore")
US = 10**6


class State:
    def __init__(self):
        self.v = None
        self.u = None
        self.zone = None     # str | int
        self.nontrivial = False
        self.labels = set()

    def render(self):
        return T.render(self.u, self.zone) if isinstance(self.zone, str) else T.render_fixed(self.u, self.zone)

    def check(self, tag):
        v = self.v
        req(isinstance(v, DateTime), f"after {tag}: value is not a DateTime", got=type(v).__name__)
        exp = self.render()
        req(v.utcoffset() is not None and T.us(v) == self.u, f"after {tag}: instant drifted by {T.us(v) - self.u} us", got=v.isoformat(), expected=exp.isoformat())
        req(T.fields(v) == T.fields(exp) and v.utcoffset() == exp.utcoffset(), f"after {tag}: fields/offset are not the tz database rendering of the instant",
            got=v.isoformat(), expected=exp.isoformat())
        if isinstance(self.zone, str):
            req(v.timezone_name == self.zone, f"after {tag}: zone name is {v.timezone_name!r}, expected {self.zone!r}")
        req(v.int_timestamp == self.u // US, f"after {tag}: int_timestamp wrong", got=v.int_timestamp)


def tzobj(zone):
    return pendulum.timezone(zone) if isinstance(zone, str) else pendulum.tz.fixed_timezone(zone)


def apply_step(s: State, step: dict):
    op = step["op"]
    if op == "init":
        s.zone, s.u = step["zone"], step["u"]
        s.v = pendulum.instance(s.render())
    elif op == "convert":
        z, how = step["zone"], step["how"]
        if how == "name" and isinstance(z, str):
            s.v = s.v.in_timezone(z)
        elif how == "in_tz":
            s.v = s.v.in_tz(tzobj(z))
        elif how == "astimezone":
            s.v = s.v.astimezone(tzobj(z))
        else:
            s.v = s.v.in_timezone(tzobj(z))
        s.zone = z
    elif op == "add":
        amt = step["amt"]
        tot = ((amt.get("hours", 0) * 60 + amt.get("minutes", 0)) * 60 + amt.get("seconds", 0)) * US + amt.get("microseconds", 0)
        nu = s.u + (tot if step["sign"] > 0 else -tot)
        if not (S.LO_U <= nu <= S.HI_U):
            return "skipped"
        s.v = s.v.add(**amt) if step["sign"] > 0 else s.v.subtract(**amt)
        s.u = nu
    elif op == "timedelta":
        nu = s.u + step["us"]
        if not (S.LO_U <= nu <= S.HI_U) or abs(step["us"]) > 10**15:      # C03 states exactness for |amount| <= 1e9 s
            return "skipped"
        td = D.timedelta(microseconds=abs(step["us"]))
        s.v = (s.v + td) if step["us"] >= 0 else (s.v - td)
        s.u = nu
    elif op == "calendar":
        if not isinstance(s.zone, str):
            zone_is_fixed = True
        amt = step["amt"]
        from vf.props.c04 import model
        wall = D.datetime(*T.fields(s.v))
        try:
            mw = model(wall, amt)
        except OverflowError:
            return "skipped"
        if not 3 < mw.year < 9997:
            return "skipped"
        w = T.naive_us(mw)
        if isinstance(s.zone, str):
            kind, eu = T.expected_construct(w, s.zone, 1)
            if eu is None:
                return "skipped"
        else:
            eu = w - s.zone * US
        s.v = s.v.add(**amt)
        s.u = eu
    elif op == "twin":
        v = s.v
        s.v = pendulum.instance(D.datetime(*T.fields(v), tzinfo=v.tzinfo, fold=v.fold))
    elif op == "native_twin":
        # through a foreign tzinfo carrying the same rules
        if isinstance(s.zone, str):
            s.v = pendulum.instance(s.render())
        else:
            s.v = pendulum.instance(T.render_fixed(s.u, s.zone)).in_timezone(tzobj(s.zone))
    elif op == "iso":
        if isinstance(s.zone, str) and s.zone != "UTC":
            return "skipped"
        if T.fields(s.v)[0] < 1583:
            return "skipped"
        r = pendulum.parse(s.v.to_iso8601_string())
        req(T.us(r) == s.u and r.utcoffset() == s.v.utcoffset(), "parse(to_iso8601_string()) does not give back the value", got=r.isoformat(), expected=s.v.isoformat())
        if isinstance(s.zone, int):
            s.v = r.in_timezone(tzobj(s.zone))
    elif op == "copy":
        how = step["how"]
        if how == "copy":
            s.v = copy.copy(s.v)
        elif how == "deepcopy":
            s.v = copy.deepcopy(s.v)
        else:
            s.v = pickle.loads(pickle.dumps(s.v, protocol=int(how)))
    elif op == "switch":
        if step["what"] == "week":
            pendulum.week_starts_at(pendulum.WeekDay(step["k"]))
            pendulum.week_ends_at(pendulum.WeekDay((step["k"] + 6) % 7))
        else:
            pendulum.set_locale(["en", "fr", "de", "ja"][step["k"] % 4])
    elif op == "day_bounds":
        # start_of/end_of('hour') and ('day') of the live value == those of a freshly built equal value
        fresh = pendulum.instance(s.render())
        for unit in ("hour", "day"):
            for opn in ("start_of", "end_of"):
                a, b = getattr(s.v, opn)(unit), getattr(fresh, opn)(unit)
                if T.us(a) != T.us(b):
                    if s.v.fold != fresh.fold:
                        raise Known("K-C12-1", f"{opn}({unit}) depends on the provenance of the value (fold {s.v.fold} vs {fresh.fold})")
                    raise Violation(f"{opn}({unit!r}) of the live value differs from the one of a freshly built equal value", live=a.isoformat(), fresh=b.isoformat())
    else:
        raise AssertionError(op)
    s.check(op)
    if isinstance(s.zone, str) and T.near_transition(s.u, s.zone) is not None:
        s.nontrivial = True
        s.labels.add("near-transition")
    return "ok"


def reset_globals():
    pendulum.week_starts_at(pendulum.MONDAY)
    pendulum.week_ends_at(pendulum.SUNDAY)
    pendulum.set_locale("en")


def replay(steps):
    s = State()
    try:
        for st_ in steps:
            apply_step(s, st_)
    finally:
        reset_globals()
    return s


fixed_amt = st.fixed_dictionaries({}, optional={"hours": st.integers(-50, 50), "minutes": st.integers(-200, 200), "seconds": st.integers(-7300, 7300),
                                                "microseconds": st.integers(-2 * 10**6, 2 * 10**6)})
cal_amt = st.fixed_dictionaries({}, optional={"years": st.integers(-3, 3), "months": st.integers(-14, 14), "weeks": st.integers(-5, 5), "days": st.integers(-40, 40),
                                              "hours": st.integers(-30, 30)}).filter(lambda a: any(a.get(k) for k in ("years", "months", "weeks", "days")))
zone_or_fixed = st.one_of(S.zones(), S.zones(), S.fixed_offset_seconds())


def make_machine(acc):
    class DateTimeHistory(RuleBasedStateMachine):
        def __init__(self):
            super().__init__()
            self.s = State()
            self.steps = []

        def _do(self, step):
            self.steps.append(step)
            try:
                apply_step(self.s, step)
            except Known as k:
                if k.kid in acc.known_ok:
                    acc.known[k.kid] += 1
                    return
                v = Violation(f"matches finding {k.kid} which is not listed as known: {k.msg}")
                acc.last_fail = (list(self.steps), v)
                raise v
            except Violation as v:
                acc.last_fail = (list(self.steps), v)
                raise
            except Exception as e:  # noqa: BLE001
                v = Violation(f"unexpected {type(e).__name__}: {e}", kind="exception")
                acc.last_fail = (list(self.steps), v)
                raise v

        @initialize(zu=S.zone_and_instant())
        def init(self, zu):
            self._do({"op": "init", "zone": zu[0], "u": zu[1]})

        @rule(z=zone_or_fixed, how=st.sampled_from(["name", "obj", "in_tz", "astimezone"]))
        def convert(self, z, how):
            self._do({"op": "convert", "zone": z, "how": how})

        @rule(amt=fixed_amt, sign=st.sampled_from([1, -1]))
        def add_fixed(self, amt, sign):
            self._do({"op": "add", "amt": amt, "sign": sign})

        @rule(us=st.one_of(st.integers(-3 * 86400 * US, 3 * 86400 * US), st.integers(-5, 5)))
        def plus_timedelta(self, us):
            self._do({"op": "timedelta", "us": us})

        @rule(amt=cal_amt)
        def calendar_add(self, amt):
            self._do({"op": "calendar", "amt": amt})

        @rule(which=st.sampled_from(["twin", "native_twin", "iso", "day_bounds"]))
        def misc(self, which):
            self._do({"op": which})

        @rule(how=st.sampled_from(["copy", "deepcopy", "0", "2", "5"]))
        def copies(self, how):
            self._do({"op": "copy", "how": how})

        @rule(what=st.sampled_from(["week", "locale"]), k=st.integers(0, 6))
        def switch(self, what, k):
            self._do({"op": "switch", "what": what, "k": k})

        @rule()
        def jump_to_transition(self):
            # move the value next to a transition of its current zone by plain elapsed time
            if isinstance(self.s.zone, str) and T.transitions(self.s.zone):
                tr = T.transitions(self.s.zone)
                near = [t for t in tr if abs(t[0] * US - self.s.u) <= 9 * 10**14]
                if near:
                    t = near[(self.s.u // US + len(self.steps)) % len(near)]
                    target = t[0] * US + (len(self.steps) % 3 - 1)
                    self._do({"op": "timedelta", "us": target - self.s.u})

        def teardown(self):
            reset_globals()
            acc.evals += 1
            if self.s.nontrivial:
                acc.nt.add(digest(self.steps))
            acc.labels[f"steps={min(len(self.steps) // 10 * 10, 50)}+"] += 1
            if len(acc.samples) < 3:
                acc.samples.append({"case": self.steps[:12], "label": "history (first 12 steps)", "nontrivial": self.s.nontrivial})

    return DateTimeHistory
