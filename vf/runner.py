"""Parent process: plans tasks, drives 16 worker processes, merges evidence.

usage: python -m vf.runner CNN quick|thorough
       python -m vf.runner CNN --replay FILE
exit 0 held / exit 1 + VIOLATION lines / exit 2 harness error or inconclusive
"""
from __future__ import annotations

import concurrent.futures as cf
import hashlib
import importlib
import json
import os
import shutil
import struct
import subprocess
import sys
import tempfile
import time
from collections import Counter

from vf import env
from vf.core import VERIF, jdump, load_known

NPROC = int(os.environ.get("VERIF_NPROC", "16"))
WORKER_TIMEOUT = {"quick": 1500, "thorough": 4 * 3600}


def _worker_env(backend):
    e = dict(os.environ)
    e["PYTHONPATH"] = env.pythonpath()
    e["PYTHONHASHSEED"] = "0"
    e["PENDULUM_EXTENSIONS"] = "1" if backend == "rust" else "0"
    e["TZ"] = "UTC"
    e.pop("PYTHONSTARTUP", None)
    return e


def run_task(task, tier):
    tf = task["out"] + ".task"
    with open(tf, "w") as f:
        json.dump(task, f)
    try:
        r = subprocess.run([sys.executable, "-m", "vf.worker", tf], cwd=VERIF, env=_worker_env(task["backend"]),
                           capture_output=True, text=True, timeout=WORKER_TIMEOUT[tier])
    except subprocess.TimeoutExpired:
        return task, None, f"worker timed out after {WORKER_TIMEOUT[tier]}s (inconclusive)"
    if r.returncode != 0 or not os.path.exists(task["out"]):
        return task, None, (r.stderr or r.stdout)[-6000:]
    with open(task["out"]) as f:
        return task, json.load(f), None


def plan(prop, mod, tier, seed, workdir):
    tasks = []
    for sub in mod.SUBS:
        for backend in sub.backends:
            k = sub.shards[tier] if sub.kind != "custom" else 1
            per = max(1, -(-sub.n[tier] // k))
            for sh in range(k):
                name = f"{sub.name}-{backend}-{sh}"
                tasks.append({"prop": prop, "sub": sub.name, "backend": backend, "tier": tier, "seed": seed,
                              "shard": sh, "nshards": k, "n": per, "mode": "run",
                              "out": os.path.join(workdir, name + ".json")})
    return tasks


def replay_items(prop, mod):
    """Pinned regression inputs + examples of listed findings for this property."""
    items = []
    names = {s.name for s in mod.SUBS}
    for e in load_known().get("findings", []):
        if e.get("property") != prop and prop not in e.get("properties", []):
            continue
        for ex in e.get("examples", []):
            if ex.get("property", e.get("property")) != prop or ex["sub"] not in names:
                continue
            items.append({"sub": ex["sub"], "case": ex["case"], "backend": ex.get("backend", "rust"),
                          "finding": e["id"], "status": e["status"], "strict": e["status"] == "fixed"})
    d = os.path.join(VERIF, "replays", "pinned")
    if os.path.isdir(d):
        for fn in sorted(os.listdir(d)):
            if fn.startswith(prop + "-") and fn.endswith(".json"):
                with open(os.path.join(d, fn)) as f:
                    r = json.load(f)
                if r["sub"] in names:
                    items.append({"sub": r["sub"], "case": r["case"], "backend": r.get("backend", "rust"),
                                  "pinned": fn, "strict": True})
    return items


SCRATCH = os.path.realpath(env.REPO) != "/repo"          # aimed at a scratch copy: keep outputs out of the committed dirs
OUT_EVIDENCE = os.path.join(VERIF, ".work", "scratch-evidence-" + hashlib.sha256(os.path.realpath(env.REPO).encode()).hexdigest()[:8]) if SCRATCH else os.path.join(VERIF, "evidence")
_PTAG = hashlib.sha256(os.path.realpath(env.REPO).encode()).hexdigest()[:8]
OUT_REPLAYS = os.path.join(VERIF, ".work", "scratch-replays-" + _PTAG) if SCRATCH else os.path.join(VERIF, "replays")


def write_replay(prop, sub, backend, fail):
    d = OUT_REPLAYS
    os.makedirs(d, exist_ok=True)
    body = {"property": prop, "sub": sub, "backend": backend, "case": fail["case"], "msg": fail["msg"],
            "detail": fail.get("detail")}
    h = hashlib.sha1(jdump([prop, sub, backend, fail["case"]]).encode()).hexdigest()[:10]
    p = os.path.join(d, f"{prop}-{sub}-{h}.json")
    with open(p, "w") as f:
        json.dump(body, f, indent=1, sort_keys=True, default=str)
    return p


def main(argv):
    if len(argv) < 2:
        print(__doc__)
        return 2
    prop = argv[0].upper()
    t0 = time.time()
    seed = int(os.environ.get("VERIF_SEED", "1") or "1")
    env.ensure_deps()
    env.build_rust()
    env.install("rust")
    mod = importlib.import_module(f"vf.props.{prop.lower()}")
    os.makedirs(os.path.join(VERIF, ".work"), exist_ok=True)
    workdir = tempfile.mkdtemp(prefix=f"{prop}-", dir=os.path.join(VERIF, ".work"))
    try:
        if argv[1] == "--replay":
            return do_replay(prop, mod, argv[2], seed, workdir)
        tier = argv[1]
        if tier not in ("quick", "thorough"):
            print(__doc__)
            return 2
        return do_run(prop, mod, tier, seed, workdir, t0)
    finally:
        shutil.rmtree(workdir, ignore_errors=True)


def do_replay(prop, mod, path, seed, workdir):
    with open(path) as f:
        r = json.load(f)
    task = {"prop": prop, "sub": r["sub"], "backend": r.get("backend", "rust"), "tier": "quick", "seed": seed,
            "shard": 0, "nshards": 1, "mode": "replay", "out": os.path.join(workdir, "replay.json"),
            "items": [{"sub": r["sub"], "case": r["case"], "strict": False}]}
    _, res, err = run_task(task, "quick")
    if err:
        sys.stderr.write(err + "\n")
        return 2
    rp = res["replays"][0]
    if rp["passed"]:
        print(f"replay passed ({'known finding ' + ','.join(rp['known']) if rp['known'] else 'property holds on this case'})")
        return 0
    print(f"  {rp['msg']}")
    print(f"VIOLATION property={prop} replay={os.path.abspath(path)}")
    return 1


def do_run(prop, mod, tier, seed, workdir, t0):
    tasks = plan(prop, mod, tier, seed, workdir)
    items = replay_items(prop, mod)
    for backend in sorted({i["backend"] for i in items}):
        tasks.append({"prop": prop, "sub": "_replays", "backend": backend, "tier": tier, "seed": seed, "shard": 0,
                      "nshards": 1, "mode": "replay", "out": os.path.join(workdir, f"_replays-{backend}.json"),
                      "items": [i for i in items if i["backend"] == backend]})
    results, errors = [], []
    with cf.ThreadPoolExecutor(max_workers=NPROC) as ex:
        for task, res, err in ex.map(lambda t: run_task(t, tier), tasks):
            if err:
                errors.append((task, err))
            else:
                results.append(res)
    if errors:
        for task, err in errors:
            sys.stderr.write(f"--- worker {task['sub']}/{task['backend']}/{task['shard']} failed:\n{err}\n")
        print(f"HARNESS-ERROR property={prop}: {len(errors)} worker(s) failed; no verdict")
        return 2

    known_entries = {e["id"]: e for e in load_known().get("findings", [])
                     if e.get("property") == prop or prop in e.get("properties", [])}
    violations = []     # (sub, backend, fail)
    per_sub = {}
    labels = Counter()
    known_hits = Counter()
    skipped = Counter()
    nt_all = set()
    nt_counted = 0
    evals = 0
    samples = []
    extras = {}
    replay_notes = []
    for res in results:
        t = res["task"]
        if t["mode"] == "replay":
            for rp in res["replays"]:
                it = rp["item"]
                evals += 1
                if it.get("status") == "known":
                    if rp["passed"] and rp["known"]:
                        known_hits[it["finding"]] += 0  # make the key exist
                        replay_notes.append({"finding": it["finding"], "example_still_fails": True})
                    elif rp["passed"]:
                        replay_notes.append({"finding": it["finding"], "example_still_fails": False})
                    else:
                        violations.append((it["sub"], it["backend"], {"case": it["case"], "msg": "listed finding's example now fails differently: " + str(rp["msg"]), "detail": rp["detail"]}))
                elif not rp["passed"]:
                    what = f"fixed finding {it['finding']} is back: " if it.get("finding") else f"pinned regression {it.get('pinned')}: "
                    violations.append((it["sub"], it["backend"], {"case": it["case"], "msg": what + str(rp["msg"]), "detail": rp["detail"]}))
            continue
        key = t["sub"]
        ps = per_sub.setdefault(key, {"evaluations": 0, "nontrivial": 0, "by_backend": Counter(), "labels": Counter(),
                                      "failures": 0, "wall_s": 0.0})
        ps["evaluations"] += res["evals"]
        ps["by_backend"][t["backend"]] += res["evals"]
        ps["wall_s"] = round(ps["wall_s"] + res["wall_s"], 2)
        evals += res["evals"]
        for k, v in res["labels"].items():
            labels[f"{key}:{k}"] += v
            ps["labels"][k] += v
        for k, v in res["known"].items():
            known_hits[k] += v
        for k, v in res["skipped"].items():
            skipped[f"{key}:{k}"] += v
        nt_counted += res["nt_count"]
        ps["nontrivial"] += res["nt_count"]
        if res["nt_file"]:
            with open(res["nt_file"], "rb") as f:
                b = f.read()
            vals = struct.unpack(f">{len(b) // 8}Q", b)
            sub_nt = ps.setdefault("_nt", set())
            sub_nt.update(vals)
        for s in res["samples"][:3]:
            if sum(1 for x in samples if x["sub"] == key) < 4:
                samples.append({"sub": key, "backend": t["backend"], **s})
        if res.get("extra"):
            ex_ = res["extra"]
            # sub-checks whose one "case" sweeps many inner cases report them here (distinct by construction)
            if isinstance(ex_, dict) and "inner_evaluations" in ex_:
                evals += ex_["inner_evaluations"]
                ps["evaluations"] += ex_["inner_evaluations"]
                nt_counted += ex_.get("inner_nontrivial", 0)
                ps["nontrivial"] += ex_.get("inner_nontrivial", 0)
            agg = extras.setdefault(key, {})
            if isinstance(ex_, dict):
                for k_, v_ in ex_.items():
                    if isinstance(v_, (int, float)):
                        agg[k_] = agg.get(k_, 0) + v_
                    else:
                        agg.setdefault(k_, v_)
        for fl in res["failures"]:
            ps["failures"] += 1
            violations.append((key, t["backend"], fl))
    for key, ps in per_sub.items():
        s = ps.pop("_nt", set())
        ps["nontrivial"] += len(s)
        nt_all.update((key, v) for v in s)
        ps["by_backend"] = dict(ps["by_backend"])
        ps["labels"] = dict(ps["labels"])
    distinct_nt = len(nt_all) + nt_counted

    # report
    seen = set()
    vlines = []
    for sub, backend, fl in violations:
        sig = (sub, jdump(fl["case"]))
        if sig in seen:
            continue
        seen.add(sig)
        p = write_replay(prop, sub, backend, fl)
        print(f"  [{sub}/{backend}] {fl['msg']}")
        print(f"  case: {jdump(fl['case'])[:600]}")
        vlines.append(f"VIOLATION property={prop} replay={p}")
    for kid, e in sorted(known_entries.items()):
        if e["status"] == "known":
            print(f"KNOWN-FINDING: property={prop} {kid} {e['what']} (generated cases hitting it this run: {known_hits.get(kid, 0)})")
    subs_meta = {s.name: s for s in mod.SUBS}
    exhaustive = {s.name: bool(s.exhaustive(tier)) for s in mod.SUBS if s.kind == "enum"}
    rule = getattr(mod, "RULE", "") + " | per sub-check: " + "; ".join(f"{s.name}: {s.rule}" for s in mod.SUBS)
    ev = {
        "property_id": prop, "tier": tier, "seed": seed, "level": "exploration",
        "coverage": {
            "evaluations": evals, "distinct_nontrivial": distinct_nt, "rule": rule, "samples": samples,
            "exhaustive": bool(exhaustive) and all(exhaustive.values()) and all(s.kind == "enum" for s in mod.SUBS),
            "exhaustive_subchecks": exhaustive,
            "per_subcheck": per_sub, "labels": dict(labels),
            "excluded_by_construction": dict(skipped), "known_finding_hits": dict(known_hits),
            "known_finding_examples": replay_notes,
            "kinds": {s.name: s.kind for s in mod.SUBS},
            "rust_build": results[0]["rust"] if results else None,
            "extra": extras,
        },
        "assumptions": list(getattr(mod, "ASSUMPTIONS", [])),
        "wall_s": round(time.time() - t0, 2),
        "violations": len(vlines),
    }
    os.makedirs(OUT_EVIDENCE, exist_ok=True)
    with open(os.path.join(OUT_EVIDENCE, f"{prop}.json"), "w") as f:
        json.dump(ev, f, indent=1, sort_keys=True, default=str)
    print(f"{prop} {tier} seed={seed}: evaluations={evals} distinct_nontrivial={distinct_nt} "
          f"violations={len(vlines)} wall={ev['wall_s']}s")
    for ln in vlines:
        print(ln)
    return 1 if vlines else 0


if __name__ == "__main__":
    try:
        rc = main(sys.argv[1:])
    except env.HarnessError as e:
        sys.stderr.write(f"HARNESS-ERROR: {e}\n")
        rc = 2
    except (KeyboardInterrupt, SystemExit):
        raise
    except BaseException:  # noqa: BLE001 - anything that escapes here is a failure of the machinery (a broken dependency, a bug of mine),
        # never a statement about pendulum: exit 2, and no VIOLATION line (an uncaught exception would exit 1)
        import traceback
        traceback.print_exc()
        sys.stderr.write("HARNESS-ERROR: the runner itself failed\n")
        rc = 2
    sys.exit(rc)
