"""Time-zone oracle built on native classes only (datetime + zoneinfo).

* render(u, zone): native rendering of integer microseconds since the epoch
* us(dt): integer instant of any aware datetime, from its fields and utcoffset()
* transitions(zone): enumerated UTC-offset transitions (generator side)
* preimages(wall, zone): set of instants whose rendering has exactly these fields

No pendulum class is ever on the oracle's path.
"""
from __future__ import annotations

import bisect
import datetime as D
import functools
import importlib.resources as R
import os
import struct
import zoneinfo

UTC = D.timezone.utc
EPOCH = D.datetime(1970, 1, 1, tzinfo=UTC)
EPOCH_NAIVE = D.datetime(1970, 1, 1)
US = 10**6
MIN_US = (D.datetime(1, 1, 1) - EPOCH_NAIVE) // D.timedelta(microseconds=1)
MAX_US = (D.datetime(9999, 12, 31, 23, 59, 59, 999999) - EPOCH_NAIVE) // D.timedelta(microseconds=1)
Y2_US = (D.datetime(2, 1, 1) - EPOCH_NAIVE) // D.timedelta(microseconds=1)
Y9998_US = (D.datetime(9998, 12, 31, 23, 59, 59, 999999) - EPOCH_NAIVE) // D.timedelta(microseconds=1)


@functools.lru_cache(None)
def zi(key: str) -> zoneinfo.ZoneInfo:
    return zoneinfo.ZoneInfo(key)


@functools.lru_cache(None)
def all_zones() -> tuple:
    try:
        with R.files("tzdata").joinpath("zones").open() as f:
            zs = [ln.strip() for ln in f if ln.strip()]
    except Exception:
        zs = [z for z in zoneinfo.available_timezones()]
    ok = []
    for z in sorted(set(zs)):
        if z == "localtime" or z.startswith(("right/", "posix/")):
            continue
        try:
            zoneinfo.ZoneInfo(z)
        except Exception:
            continue
        ok.append(z)
    return tuple(ok)


def td_us(td: D.timedelta) -> int:
    return (td.days * 86400 + td.seconds) * US + td.microseconds


def naive_us(dt) -> int:
    """wall-clock fields -> integer microseconds since 1970-01-01 on the same clock"""
    n = D.datetime(dt.year, dt.month, dt.day, dt.hour, dt.minute, dt.second, dt.microsecond)
    return td_us(n - EPOCH_NAIVE)


def us(dt) -> int:
    """aware datetime -> integer microseconds since the epoch (integer arithmetic only)"""
    off = dt.utcoffset()
    return naive_us(dt) - td_us(off)


def fields(dt) -> tuple:
    return (dt.year, dt.month, dt.day, dt.hour, dt.minute, dt.second, dt.microsecond)


def off_s(dt):
    o = dt.utcoffset()
    return None if o is None else td_us(o) / US if td_us(o) % US else td_us(o) // US


def wall_from_us(w: int) -> D.datetime:
    return EPOCH_NAIVE + D.timedelta(microseconds=w)


def render(u: int, zone) -> D.datetime:
    """integer us since epoch -> native aware datetime in zone (name | tzinfo)"""
    tz = zi(zone) if isinstance(zone, str) else zone
    return (EPOCH + D.timedelta(microseconds=u)).astimezone(tz)


def render_fixed(u: int, offset_s: int) -> D.datetime:
    return render(u, D.timezone(D.timedelta(seconds=offset_s)))


def offset_at(u: int, zone: str) -> int:
    """UTC offset in whole seconds in force at instant u"""
    return td_us(render(u, zone).utcoffset()) // US


# ------------------------------------------------------------------ TZif reading

def _locate(key: str) -> bytes:
    for p in zoneinfo.TZPATH:
        f = os.path.join(p, key)
        if os.path.isfile(f):
            with open(f, "rb") as fh:
                return fh.read()
    return R.files("tzdata.zoneinfo").joinpath(*key.split("/")).read_bytes()


def _parse_tzif(b: bytes):
    assert b[:4] == b"TZif"
    ver = b[4:5]

    def hdr(o):
        return struct.unpack(">6l", b[o + 20:o + 44])

    isutc, isstd, leap, timecnt, typecnt, charcnt = hdr(0)
    o = 44 + timecnt * 4 + timecnt + typecnt * 6 + charcnt + leap * 8 + isstd + isutc
    if ver >= b"2":
        isutc, isstd, leap, timecnt, typecnt, charcnt = hdr(o)
        o += 44
        times = struct.unpack(">%dq" % timecnt, b[o:o + 8 * timecnt])
        o += 8 * timecnt + timecnt + 6 * typecnt + charcnt + leap * 12 + isstd + isutc
        footer = b[o:].strip().decode()
    else:
        o = 44
        times = struct.unpack(">%dl" % timecnt, b[o:o + 4 * timecnt])
        footer = ""
    return times, footer


FOOTER_YEARS = (2038, 2100, 2400, 5000, 9990)
_LO_S = MIN_US // US + 2 * 86400
_HI_S = MAX_US // US - 2 * 86400


@functools.lru_cache(None)
def transitions(key: str) -> tuple:
    """sorted tuple of (utc_seconds, off_before_s, off_after_s), off_before != off_after.

    Explicit TZif transitions plus, for zones with a POSIX footer rule, the
    transitions of FOOTER_YEARS found by day-step scan + bisection on render().
    """
    times, footer = _parse_tzif(_locate(key))
    out = {}
    for t in times:
        if t < _LO_S or t > _HI_S:
            continue
        a = offset_at((t - 1) * US, key)
        b = offset_at(t * US, key)
        if a != b:
            out[t] = (t, a, b)
    if "," in footer:
        for y in FOOTER_YEARS:
            lo = td_us(D.datetime(y, 1, 1) - EPOCH_NAIVE) // US
            prev = offset_at(lo * US, key)
            for d in range(1, 367):
                t = lo + d * 86400
                cur = offset_at(t * US, key)
                if cur != prev:
                    a, b = t - 86400, t
                    while b - a > 1:
                        m = (a + b) // 2
                        if offset_at(m * US, key) == prev:
                            a = m
                        else:
                            b = m
                    out[b] = (b, prev, cur)
                    prev = cur
    return tuple(out[k] for k in sorted(out))


@functools.lru_cache(None)
def _trans_times(key: str):
    return [t[0] for t in transitions(key)]


def near_transition(u: int, key: str, margin_s: int = 0):
    """the enumerated transition closest to instant u if within max(|gap|, margin) seconds, else None"""
    tr = transitions(key)
    if not tr:
        return None
    ts = _trans_times(key)
    s = u // US
    i = bisect.bisect_left(ts, s)
    best = None
    for j in (i - 1, i):
        if 0 <= j < len(tr):
            t, a, b = tr[j]
            if abs(s - t) <= max(abs(b - a), margin_s) + 1:
                best = tr[j]
    return best


def transition_between(u1: int, u2: int, key: str) -> bool:
    lo, hi = (u1, u2) if u1 <= u2 else (u2, u1)
    ts = _trans_times(key)
    i = bisect.bisect_right(ts, lo // US)
    return i < len(ts) and ts[i] <= hi // US


def candidate_offsets(w: int, key: str) -> set:
    """all UTC offsets (s) in force within +-2 days of wall value w (us on the wall clock)"""
    offs = set()
    for d in (-2 * 86400, -86400, -43200, 0, 43200, 86400, 2 * 86400):
        u = min(max(w + d * US, MIN_US + 2 * 86400 * US), MAX_US - 2 * 86400 * US)
        offs.add(offset_at(u, key))
    ts = _trans_times(key)
    s = w // US
    i = bisect.bisect_left(ts, s - 3 * 86400)
    tr = transitions(key)
    while i < len(tr) and tr[i][0] <= s + 3 * 86400:
        offs.add(tr[i][1])
        offs.add(tr[i][2])
        i += 1
    return offs


def preimages(w: int, key: str) -> list:
    """sorted instants u (us) with naive_us(render(u)) == w"""
    res = []
    for off in candidate_offsets(w, key):
        u = w - off * US
        if MIN_US <= u <= MAX_US and offset_at(u, key) == off:
            res.append(u)
    return sorted(set(res))


def gap_around(w: int, key: str):
    """for a skipped wall value w: (t, off_before, off_after) of the enclosing gap, else None"""
    tr = transitions(key)
    ts = _trans_times(key)
    s = w // US
    i = bisect.bisect_left(ts, s - 2 * 86400)
    while i < len(tr) and tr[i][0] <= s + 2 * 86400:
        t, a, b = tr[i]
        if b > a and (t + a) * US <= w < (t + b) * US:
            return tr[i]
        i += 1
    return None


def classify_wall(w: int, key: str):
    """('unique'|'repeated'|'skipped'|'compound', preimages, gap)"""
    p = preimages(w, key)
    if len(p) == 1:
        return "unique", p, None
    if len(p) == 2:
        return "repeated", p, None
    if len(p) == 0:
        g = gap_around(w, key)
        if g is not None:
            return "skipped", p, g
        return "compound", p, None
    return "compound", p, None


def expected_construct(w: int, key: str, fold: int):
    """Documented normalisation of a wall value: returns (kind, instant|None).

    unique -> that instant; repeated -> later (fold 1) / earlier (fold 0);
    skipped -> wall moved forward (fold 1) / backward (fold 0) by the gap length,
    provided the moved wall value is itself unique-or-resolvable; compound -> None.
    """
    kind, p, g = classify_wall(w, key)
    if kind == "unique":
        return kind, p[0]
    if kind == "repeated":
        return kind, (p[1] if fold else p[0])
    if kind == "skipped":
        t, a, b = g
        gap = (b - a) * US
        w2 = w + gap if fold else w - gap
        # forward: rendered with the offset after; backward: offset before
        u = w2 - (b if fold else a) * US
        if naive_us(render(u, key)) == w2 and offset_at(u, key) == (b if fold else a):
            return kind, u
        return "compound", None
    return kind, None
