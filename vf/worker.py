"""Worker process: runs one (property, sub-check, backend, shard) task.

usage: python -m vf.worker TASK.json   (result written to task['out'])
"""
from __future__ import annotations

import importlib
import json
import os
import struct
import sys
import time
import traceback
from collections import Counter

from vf import env
from vf.core import CaseTimeout, Ctx, Known, Skip, Violation, ambient, digest, jdump, known_ids, watchdog

MAX_FAIL = 3


class Acc:
    def __init__(self, sub, ctx, known_ok):
        self.sub, self.ctx, self.known_ok = sub, ctx, known_ok
        self.evals = 0
        self.nt = set()
        self.nt_count = 0
        self.labels = Counter()
        self.known = Counter()
        self.skipped = Counter()
        self.samples = []
        self.failures = []
        self.last_fail = None

    def run_case(self, case, reraise=True):
        """Execute check(case); classify the outcome.  Returns True if it passed."""
        self.evals += 1
        sub = self.sub
        try:
            try:
                with watchdog(sub.case_timeout):
                    if getattr(sub, "ambient", False):
                        # result must not depend on calendar.setfirstweekday() / week_starts_at(): switched per case (core.ambient)
                        with ambient(case):
                            r = sub.check(case, self.ctx)
                    else:
                        r = sub.check(case, self.ctx)
            except CaseTimeout:
                raise Violation(f"non-termination: case still running after {sub.case_timeout} CPU seconds", kind="timeout")
            except (Violation, Known, Skip, env.HarnessError):
                raise
            except Exception as e:  # an exception nobody expected: escaped from the code under test
                tb = traceback.extract_tb(e.__traceback__)
                where = [f"{os.path.basename(f.filename)}:{f.lineno}:{f.name}" for f in tb[-4:]]
                raise Violation(f"unexpected {type(e).__name__}: {e}", kind="exception", where=where)
        except Known as k:
            if k.kid in self.known_ok:
                self.known[k.kid] += 1
                return True
            v = Violation(f"matches finding {k.kid} which is not listed as known: {k.msg}", finding=k.kid)
            self.last_fail = (case, v)
            if reraise:
                raise v
            return False
        except Skip as s:
            self.skipped[s.reason] += 1
            return True
        except Violation as v:
            self.last_fail = (case, v)
            if reraise:
                raise
            return False
        nt, label = (False, "") if r is None else r
        if label:
            self.labels[label] += 1
        if nt:
            if sub.distinct_by_construction:
                self.nt_count += 1
            else:
                self.nt.add(digest(case))
        if len(self.samples) < 2 or (len(self.samples) < 6 and nt and digest(case) % 97 == 0):
            smp = {"case": case, "label": label, "nontrivial": bool(nt)}
            if hasattr(sub, "describe"):
                try:
                    smp["readable"] = sub.describe(case)
                except Exception:  # noqa: BLE001
                    pass
            self.samples.append(smp)
        return True

    def add_failure(self, case, v):
        self.failures.append({"case": case, "msg": v.msg, "detail": json.loads(jdump(v.detail))})


def run_hyp(sub, ctx, acc, n, seedval):
    from hypothesis import HealthCheck, Phase, given, seed, settings

    strat = sub.strategy(ctx)

    @seed(seedval)
    @settings(max_examples=n, database=None, deadline=None, derandomize=False,
              report_multiple_bugs=False, suppress_health_check=list(HealthCheck),
              phases=[Phase.generate, Phase.shrink], print_blob=False)
    @given(strat)
    def test(case):
        acc.run_case(case)

    try:
        test()
    except BaseException as e:  # noqa: BLE001
        if isinstance(e, (KeyboardInterrupt, SystemExit, env.HarnessError)):
            raise
        if acc.last_fail is None:
            raise env.HarnessError("hypothesis failed without a recorded case:\n" + traceback.format_exc())
        case, v = acc.last_fail
        # confirm outside Hypothesis
        a2 = Acc(sub, ctx, acc.known_ok)
        if a2.run_case(case, reraise=False):
            raise env.HarnessError(f"flaky: shrunk case passes on direct replay: {jdump(case)[:500]}")
        acc.add_failure(case, a2.last_fail[1])


def run_enum(sub, ctx, acc, shard, nshards):
    nfail = 0
    for case in sub.cases(ctx, shard, nshards):
        ok = acc.run_case(case, reraise=False)
        if not ok:
            nfail += 1
            if len(acc.failures) < MAX_FAIL:
                acc.add_failure(*acc.last_fail)
            if nfail >= 200:
                break
    acc.enum_failures = nfail


def run_machine(sub, ctx, acc, n, seedval):
    from hypothesis import HealthCheck, Phase, seed, settings
    from hypothesis.stateful import run_state_machine_as_test

    M = sub.machine(ctx, acc)
    st = settings(max_examples=n, stateful_step_count=sub.steps[ctx.tier], database=None, deadline=None,
                  derandomize=False, report_multiple_bugs=False, suppress_health_check=list(HealthCheck),
                  phases=[Phase.generate, Phase.shrink], print_blob=False)
    try:
        run_state_machine_as_test(seed(seedval)(M), settings=st)
    except BaseException as e:  # noqa: BLE001
        if isinstance(e, (KeyboardInterrupt, SystemExit, env.HarnessError)):
            raise
        if acc.last_fail is None:
            raise env.HarnessError("state machine failed without a recorded history:\n" + traceback.format_exc())
        case, v = acc.last_fail
        a2 = Acc(sub, ctx, acc.known_ok)
        if a2.run_case(case, reraise=False):
            raise env.HarnessError(f"flaky: shrunk history passes on direct replay: {jdump(case)[:800]}")
        acc.add_failure(case, a2.last_fail[1])


def main(task):
    t0 = time.time()
    info = env.install(task["backend"])
    os.environ.setdefault("TZ", "UTC")
    mod = importlib.import_module(f"vf.props.{task['prop'].lower()}")
    subs = {s.name: s for s in mod.SUBS}
    ctx = Ctx(task["prop"], task["tier"], task["seed"], task["backend"], task.get("shard", 0), task.get("nshards", 1))
    known_ok = known_ids("known")
    res = {"task": {k: task[k] for k in ("prop", "sub", "backend", "tier", "seed", "shard", "nshards", "mode")},
           "rust": info["rust_hash"]}
    if task["mode"] == "replay":
        out = []
        for item in task["items"]:
            sub = subs[item["sub"]]
            acc = Acc(sub, ctx, set() if item.get("strict") else known_ok)
            ok = acc.run_case(item["case"], reraise=False)
            out.append({"item": item, "passed": ok, "known": dict(acc.known),
                        "msg": None if ok else acc.last_fail[1].msg,
                        "detail": None if ok else json.loads(jdump(acc.last_fail[1].detail))})
        res["replays"] = out
    else:
        sub = subs[task["sub"]]
        acc = Acc(sub, ctx, known_ok)
        seedval = (task["seed"] * 1000003 + digest([task["prop"], task["sub"], task["backend"]]) % 100000) * 64 + task["shard"]
        if sub.kind == "hyp":
            run_hyp(sub, ctx, acc, task["n"], seedval)
        elif sub.kind == "enum":
            run_enum(sub, ctx, acc, task["shard"], task["nshards"])
        elif sub.kind == "machine":
            run_machine(sub, ctx, acc, task["n"], seedval)
        elif sub.kind == "custom":
            sub.run(ctx, acc, task)
        else:
            raise env.HarnessError(f"unknown kind {sub.kind}")
        nt_file = None
        if acc.nt:
            nt_file = task["out"] + ".nt"
            with open(nt_file, "wb") as f:
                f.write(struct.pack(f">{len(acc.nt)}Q", *acc.nt))
        res.update(evals=acc.evals, nt_count=acc.nt_count, nt_file=nt_file, labels=dict(acc.labels),
                   known=dict(acc.known), skipped=dict(acc.skipped), samples=acc.samples,
                   failures=acc.failures, enum_failures=getattr(acc, "enum_failures", 0),
                   extra=ctx.cache.get("evidence_extra"))
    res["wall_s"] = round(time.time() - t0, 3)
    with open(task["out"], "w") as f:
        f.write(jdump(res))


if __name__ == "__main__":
    with open(sys.argv[1]) as f:
        task = json.load(f)
    try:
        main(task)
    except env.HarnessError as e:
        sys.stderr.write(f"HARNESS-ERROR: {e}\n")
        sys.exit(2)
    except BaseException:  # noqa: BLE001
        sys.stderr.write("HARNESS-ERROR: worker crashed\n" + traceback.format_exc())
        sys.exit(2)
