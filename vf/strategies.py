"""Hypothesis strategies shared by the property modules (construction, not rejection)."""
from __future__ import annotations

from hypothesis import strategies as st

from vf import oracle_tz as T

US = 10**6
HARD_ZONES = [
    "Australia/Lord_Howe", "Pacific/Apia", "Pacific/Kiritimati", "America/St_Johns", "Asia/Kathmandu",
    "America/Sao_Paulo", "America/Havana", "Asia/Beirut", "Antarctica/Troll", "Africa/Casablanca",
    "Europe/Dublin", "Europe/Paris", "America/New_York", "Asia/Kolkata", "Asia/Tehran", "Pacific/Chatham",
    "America/Asuncion", "America/Santiago", "Asia/Amman", "Africa/Cairo", "Europe/London", "UTC",
    "America/Argentina/Buenos_Aires", "America/Indiana/Knox", "Asia/Manila", "Africa/Monrovia",
    "America/Scoresbysund", "Europe/Lisbon", "Asia/Gaza", "Pacific/Kanton", "Australia/Sydney",
]


def uni(lo, hi):
    """integers in [lo, hi] for BIG ranges.

    Hypothesis' st.integers() draws mostly short bit-lengths for ranges above 2**24, i.e. values
    clustered around 0 (or the bound nearest to 0).  Two thirds of the draws here are (near-)uniform,
    built from 20-bit limbs; one third keeps the small-value bias (boundaries near zero matter too).
    """
    lo, hi = int(lo), int(hi)
    span = hi - lo
    if span < 2**24:
        return st.integers(lo, hi)
    k = (span.bit_length() + 19) // 20
    limbs = st.tuples(*([st.integers(0, 2**20 - 1)] * k)).map(lambda t: lo + sum(v << (20 * i) for i, v in enumerate(t)) % (span + 1))
    return st.one_of(limbs, limbs, st.integers(lo, hi))


# names whose SPELLING is unusual (POSIX-looking legacy zones with DST, bare abbreviations, Etc/ zones with inverted signs, links, three-part
# names, punctuation): anything that classifies a zone by the look of its name goes wrong here (seeded change C02-r6)
ODD_NAMES = [
    "EST5EDT", "CST6CDT", "MST7MDT", "PST8PDT", "WET", "CET", "MET", "EET", "EST", "MST", "HST", "GMT0", "GMT+0", "GMT-0", "Etc/GMT+5", "Etc/GMT-14", "Etc/GMT0",
    "UCT", "Zulu", "NZ-CHAT", "GB-Eire", "W-SU", "PRC", "ROK", "Navajo", "Egypt", "Cuba", "Eire", "Iran", "Israel", "Jamaica", "Japan", "Libya", "Poland", "Portugal",
    "Turkey", "US/Pacific", "US/Indiana-Starke", "Canada/Newfoundland", "America/Argentina/ComodRivadavia", "America/North_Dakota/New_Salem", "America/Port-au-Prince",
    "Etc/UTC", "Universal", "Greenwich",
]


def zones():
    allz = [z for z in T.all_zones()]
    odd = [z for z in ODD_NAMES if z in set(allz)]
    return st.one_of(st.sampled_from(HARD_ZONES), st.sampled_from(HARD_ZONES), st.sampled_from(allz), st.sampled_from(allz), st.sampled_from(odd))


def zones_with_transitions():
    return zones().filter(lambda z: len(T.transitions(z)) > 0)


LO_U = T.Y2_US + 3 * 86400 * US
HI_U = T.Y9998_US - 3 * 86400 * US


def clamp_u(u):
    return min(max(u, LO_U), HI_U)


@st.composite
def instant_near_transition(draw, zone):
    tr = T.transitions(zone)
    if not tr:
        return draw(uniform_instant())
    t, a, b = tr[draw(st.integers(0, len(tr) - 1))]
    g = abs(b - a)
    kind = draw(st.integers(0, 9))
    base = t * US
    if kind == 0:
        d = -1
    elif kind == 1:
        d = 0
    elif kind == 2:
        d = 1
    elif kind == 3:
        d = draw(st.sampled_from([-US, US]))
    elif kind == 4:
        d = draw(st.sampled_from([-g * US, g * US, -g * US - 1, g * US - 1, -g * US + 1, g * US + 1]))
    elif kind == 5:
        d = draw(uni(-g * US, g * US))
    elif kind == 6:
        d = draw(uni(-2 * g * US, 2 * g * US))
    elif kind == 7:
        d = draw(uni(-86400 * US, 86400 * US))
    elif kind == 8:
        d = draw(st.integers(-g, g)) * US
    else:
        d = draw(st.integers(-3600, 3600)) * US + draw(st.sampled_from([0, 1, 999999, 500000]))
    return clamp_u(base + d)


def uniform_instant():
    return st.one_of(
        uni(LO_U, HI_U),
        uni(-2 * 10**15, 4 * 10**15),            # ~1906..2096
        st.builds(lambda s, u: s * US + u, uni(LO_U // US + 1, HI_U // US - 1), st.sampled_from([0, 1, 999999])),
    )


@st.composite
def zone_and_instant(draw, p_near=0.75):
    z = draw(zones())
    if draw(st.floats(0, 1)) < p_near:
        u = draw(instant_near_transition(z))
    else:
        u = draw(uniform_instant())
    return z, u


@st.composite
def wall_near_transition(draw, zone):
    """wall-clock value (us on the wall clock) on/around the edges of a gap or overlap of zone"""
    tr = T.transitions(zone)
    if not tr:
        return draw(uni(LO_U, HI_U))
    t, a, b = tr[draw(st.integers(0, len(tr) - 1))]
    lo = (t + min(a, b)) * US       # first skipped / first repeated wall value
    hi = (t + max(a, b)) * US       # first wall value after the gap / overlap
    span = hi - lo
    k = draw(st.integers(0, 11))
    if k == 0:
        w = lo - 1
    elif k == 1:
        w = lo
    elif k == 2:
        w = lo + 1
    elif k == 3:
        w = hi - 1
    elif k == 4:
        w = hi
    elif k == 5:
        w = hi + 1
    elif k in (6, 7):
        w = draw(st.integers(lo, max(lo, hi - 1)))
    elif k == 8:
        w = draw(st.integers(lo - span, hi + span))
    elif k == 9:
        w = lo + draw(st.integers(0, max(0, span // US - 1))) * US
    elif k == 10:
        w = draw(st.sampled_from([lo - span, lo - span - 1, hi + span, hi + span - 1, lo - US, hi + US]))
    else:
        w = draw(uni(lo - 86400 * US, hi + 86400 * US))
    return clamp_u(w)


def fixed_offset_seconds(whole_minutes=True):
    if whole_minutes:
        return st.integers(-1439, 1439).map(lambda m: m * 60)
    return st.integers(-86399, 86399)


def wall_tuple(w):
    dt = T.wall_from_us(w)
    return [dt.year, dt.month, dt.day, dt.hour, dt.minute, dt.second, dt.microsecond]


def ym_cancel_args(ints_only=False):
    """Duration arguments whose years/months are cancelled (exactly, or up to a tiny rest of either sign) by weeks/days/hours: the native
    timedelta is zero or tiny while the calendar components are not.  A boundary class of its own for everything that consumes a Duration
    (truthiness, copying, scaling, wording): seeded changes C09-r4 and C14-r4 lived exactly there."""
    return st.builds(
        lambda y, mo, split, eps_d, eps_us, how: dict(
            {"years": y, "months": mo},
            **({"days": -(365 * y + 30 * mo) + eps_d, "microseconds": eps_us} if how == 0 else
               {"weeks": -((365 * y + 30 * mo) // 7), "days": -((365 * y + 30 * mo) % 7) + eps_d, "microseconds": eps_us} if how == 1 else
               {"days": -(365 * y + 30 * mo) + split + eps_d, "hours": -24 * split, "microseconds": eps_us})),
        st.integers(-6, 6), st.integers(-80, 80), st.integers(-3, 3), st.sampled_from([0, 0, 0, 1, -1]), st.sampled_from([0, 0, 0, 1, -1, 500000]), st.integers(0, 2))


EDGE_YEARS = [4, 100, 200, 400, 800, 1200, 1500, 1582, 1600, 1700, 1900, 2000, 2024, 2100, 2400, 2800, 3600, 4000, 4400, 5200, 6000, 8000, 8400, 9200, 9600, 9996]


@st.composite
def calendar_edge_wall(draw):
    """naive wall value (us since 1970) on a calendar edge: last days of February / 1 March (leap-rule years: every century, the multiples of 400
    and of 4000, the Julian/Gregorian switch), month and year ends, 30 November (a day-roll into December), at a time of day close to midnight,
    noon, or an evening hour that crosses midnight when shifted to UTC.  Uniform draws reach 29 February 2000 once in ~1.5 million cases."""
    import calendar
    import datetime as D
    y = draw(st.one_of(st.sampled_from(EDGE_YEARS), st.sampled_from(EDGE_YEARS), st.integers(2, 9997)))
    md = draw(st.sampled_from([(2, 28), (2, 29), (2, 29), (3, 1), (12, 31), (1, 1), (1, 31), (11, 30), (12, 1), (10, 31), (6, 30), (2, 27)]))
    m, d = md
    d = min(d, calendar.monthrange(y, m)[1])
    tod = draw(st.sampled_from([0, 1, 43200 * US, 86400 * US - 1, 18 * 3600 * US, 20 * 3600 * US + 30 * 60 * US, 23 * 3600 * US, 3600 * US]) | st.integers(0, 86400 * US - 1))
    return T.naive_us(D.datetime(y, m, d)) + tod


@st.composite
def calendar_edge_instant(draw, zone):
    """an instant whose local rendering in `zone` is (close to) a calendar-edge wall time"""
    w = draw(calendar_edge_wall())
    off = T.offset_at(clamp_u(w), zone)
    return clamp_u(w - off * US)
