"""Core vocabulary shared by property modules, worker and runner."""
from __future__ import annotations

import contextlib
import hashlib
import json
import os
import signal
from contextlib import contextmanager

VERIF = os.path.dirname(os.path.dirname(os.path.abspath(__file__)))


class Violation(Exception):
    """The property does not hold for this case."""

    def __init__(self, msg: str, **detail):
        super().__init__(msg)
        self.msg = msg
        self.detail = detail


class Known(Exception):
    """The case fails in exactly the way a *listed* known finding describes."""

    def __init__(self, kid: str, msg: str = ""):
        super().__init__(kid)
        self.kid = kid
        self.msg = msg


class Skip(Exception):
    """Case outside the asserted domain (counted under excluded_by_construction)."""

    def __init__(self, reason: str):
        super().__init__(reason)
        self.reason = reason


class CaseTimeout(BaseException):
    pass


@contextmanager
def watchdog(seconds: float):
    def _h(signum, frame):
        raise CaseTimeout()

    # CPU time of this process, not wall time: a case that is merely starved by other jobs on the machine must not look like a hang
    # (a wall-clock budget hit is 'inconclusive', never a violation); a genuine endless loop burns CPU and is caught
    old = signal.signal(signal.SIGVTALRM, _h)
    signal.setitimer(signal.ITIMER_VIRTUAL, seconds)
    try:
        yield
    finally:
        signal.setitimer(signal.ITIMER_VIRTUAL, 0)
        signal.signal(signal.SIGVTALRM, old)


def jdump(x) -> str:
    return json.dumps(x, sort_keys=True, ensure_ascii=True, default=_default)


def _default(o):
    if isinstance(o, (set, frozenset)):
        return sorted(o)
    if isinstance(o, tuple):
        return list(o)
    if isinstance(o, bytes):
        return {"__bytes__": o.hex()}
    return repr(o)


def digest(case) -> int:
    return int.from_bytes(hashlib.blake2b(jdump(case).encode(), digest_size=8).digest(), "big")


def req(cond: bool, msg: str, **detail) -> None:
    if not cond:
        raise Violation(msg, **detail)


class Sub:
    """One sub-check of a property.

    kind 'hyp'  : `strategy(ctx)` returns a Hypothesis strategy of JSON-able cases
    kind 'enum' : `cases(ctx, shard, nshards)` yields JSON-able cases (a finite space,
                  partitioned over shards; `exhaustive(tier)` tells whether the tier
                  enumerates the whole declared space)
    kind 'machine': `machine(ctx)` returns a RuleBasedStateMachine subclass whose
                  instances expose `.steps` (JSON list); check(case) replays steps.
    `check(case, ctx)` returns None | (nontrivial: bool, label: str) and raises
    Violation / Known / Skip.
    """

    name = "?"
    kind = "hyp"
    backends = ("rust", "py")
    n = {"quick": 2000, "thorough": 50000}        # per backend, summed over shards
    shards = {"quick": 2, "thorough": 8}
    rule = ""
    case_timeout = 120.0      # CPU seconds per case (sweeping enum rows set more)
    distinct_by_construction = False
    steps = {"quick": 30, "thorough": 50}          # machines only

    def strategy(self, ctx):
        raise NotImplementedError

    def cases(self, ctx, shard, nshards):
        raise NotImplementedError

    def exhaustive(self, tier) -> bool:
        return False

    def check(self, case, ctx):
        raise NotImplementedError


class Ctx:
    def __init__(self, prop, tier, seed, backend, shard=0, nshards=1):
        self.prop = prop
        self.tier = tier
        self.seed = seed
        self.backend = backend
        self.shard = shard
        self.nshards = nshards
        self.cache = {}

    @property
    def thorough(self):
        return self.tier == "thorough"


def load_known() -> dict:
    p = os.path.join(VERIF, "known_findings.json")
    if not os.path.exists(p):
        return {"findings": []}
    with open(p) as f:
        return json.load(f)


def known_ids(status="known") -> set:
    return {e["id"] for e in load_known().get("findings", []) if e.get("status") == status}


def _failed_operations_prelude(pendulum):
    """Operations that legitimately raise, executed (and swallowed) right before a case: a failed call must leave nothing behind that changes
    later results (seeded change C03-r7 kept a class-level flag set when astimezone() raised)."""
    import datetime as _D
    attempts = (
        lambda: pendulum.DateTime.min.in_timezone("America/New_York"),
        lambda: pendulum.DateTime.max.in_timezone("Asia/Tokyo"),
        lambda: pendulum.DateTime.min.replace(tzinfo=pendulum.UTC).astimezone(_D.timezone(_D.timedelta(hours=-5))),
        lambda: pendulum.parse("not a date"),
        lambda: pendulum.from_format("x", "YYYY-MM-DD"),
        lambda: pendulum.datetime(2021, 2, 30),
        lambda: pendulum.datetime(2021, 3, 28, 2, 30, tz="Europe/Paris", raise_on_unknown_times=True),
        lambda: pendulum.timezone("Nowhere/Land"),
        lambda: pendulum.duration(years=1.5),
        lambda: pendulum.date(9999, 12, 31).add(days=1),
        lambda: pendulum.datetime(9999, 12, 31, 23).add(hours=2),
        lambda: pendulum.time(1, 2, 3) + _D.timedelta(days=1),
        lambda: pendulum.datetime(2020, 1, 1).start_of("fortnight"),
        lambda: pendulum.interval(pendulum.datetime(2020, 1, 1), pendulum.date(2020, 1, 2)),
        lambda: pendulum.datetime(2020, 1, 1).nth_of("month", 9, pendulum.MONDAY),
        lambda: pendulum.duration(days=1) / 0,
    )
    for f in attempts:
        try:
            f()
        except Exception:  # noqa: BLE001 - each of these is expected to raise; whatever it raises is not this check's business
            pass


@contextlib.contextmanager
def ambient(case):
    """Run a check under process-wide switches that must NOT influence its result: the stdlib calendar module's first weekday
    (calendar.setfirstweekday), the thread's decimal context, and pendulum's own week start/end.  Which setting is used is a pure function of the case (a third
    of the cases keep the defaults).  Seeded changes C15-r5 / C16-r5 - and a genuine defect of first_of/last_of - lived there."""
    import calendar
    import json
    import zlib

    import pendulum
    c = zlib.crc32(json.dumps(case, sort_keys=True, default=str).encode())
    k = 0 if c % 3 == 0 else c // 3
    import decimal
    calendar.setfirstweekday(k % 7)
    pendulum.week_starts_at(pendulum.WeekDay((k // 7) % 7))
    pendulum.week_ends_at(pendulum.WeekDay((k // 7 + 6) % 7))
    # the thread's decimal context belongs to the application too (seeded change C13-r6 computed fractions with Decimal)
    dctx = decimal.getcontext()
    old_prec, old_rounding = dctx.prec, dctx.rounding
    dctx.prec = (28, 6, 3, 50)[(k // 49) % 4]
    dctx.rounding = (decimal.ROUND_HALF_EVEN, decimal.ROUND_DOWN, decimal.ROUND_UP)[(k // 196) % 3]
    if (k // 588) % 2:
        _failed_operations_prelude(pendulum)
    try:
        yield k % 7, (k // 7) % 7
    finally:
        calendar.setfirstweekday(0)
        pendulum.week_starts_at(pendulum.MONDAY)
        pendulum.week_ends_at(pendulum.SUNDAY)
        dctx.prec, dctx.rounding = old_prec, old_rounding
