"""child of C15's process_time_zone sub-check: a fresh interpreter whose TZ was set *before* pendulum is imported.

stdin: {"backend": "py"|"rust", "cases": [[t, off, us], ...], "years": [...]}; stdout: the raw answers of the calendar primitives, judged by the parent."""
import json
import sys
import time


def main():
    task = json.load(sys.stdin)
    from vf import env

    env.install(task["backend"])
    import pendulum
    import pendulum._helpers as PY
    import pendulum._pendulum as RS
    import pendulum.helpers as HLP

    try:
        out = compute(task, pendulum, PY, RS, HLP)
    except Exception:      # the library raised: exit code 3 tells the parent it was not the harness
        import traceback
        traceback.print_exc()
        sys.exit(3)
    json.dump(out, sys.stdout)


def compute(task, pendulum, PY, RS, HLP):
    out = {"tzname": list(time.tzname), "utc_offset_2000": time.localtime(946684800).tm_gmtoff, "local_time": [], "years": [], "getters": []}
    for t, off, us in task["cases"]:
        out["local_time"].append([list(m.local_time(t, off, us)) for m in (PY, RS, HLP)])
        d = pendulum.from_timestamp(t)
        out["getters"].append([d.year, d.month, d.day, d.hour, d.minute, d.second, d.day_of_week, d.day_of_year, d.week_of_year, d.days_in_month, d.quarter])
    for y in task["years"]:
        out["years"].append([[bool(m.is_leap(y)), bool(m.is_long_year(y)), int(m.days_in_year(y)), int(m.week_day(y, 3, 1))] for m in (PY, RS, HLP)])
    return out


if __name__ == "__main__":
    main()
