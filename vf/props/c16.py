"""C16 — Weekday navigation lands on the right day inside the right unit."""
from __future__ import annotations

import calendar
import datetime as D
import warnings

from hypothesis import strategies as st

import pendulum
from pendulum import Date, DateTime
from pendulum.exceptions import PendulumException
from vf import oracle_tz as T
from vf import strategies as S
from vf.core import Known, Skip, Sub, Violation, req

warnings.simplefilter("ignore")
US = 10**6
DAY = 86400 * US
RULE = "oracle: brute-force datetime.date arithmetic (list every date of the unit with the weekday; nearest strictly later/earlier date)"
ASSUMPTIONS = ["zone cases: when a midnight on the way (the value's own day or the target day) is skipped or repeated the result must still be the brute-force date at its "
               "first instant (the former known finding K-C12-1 was repaired in a574970; its predicate now reports a violation)",
               "target days that do not exist at all in the zone (Pacific/Apia 2011-12-30) are outside the asserted domain"]
# zones whose clocks jump from 23:00 / 23:30 straight to 00:00: the day's LAST hour is skipped, its midnight is ordinary
LATE_EVENING_GAPS = ["America/Nuuk", "America/Scoresbysund", "Asia/Pyongyang", "Asia/Dhaka"]
MIDNIGHT_DST = ["America/Sao_Paulo", "America/Havana", "Asia/Beirut", "America/Asuncion", "America/Santiago", "Asia/Amman", "Asia/Damascus", "Africa/Cairo",
                "Asia/Tehran", "America/Campo_Grande", "Atlantic/Azores", "Asia/Gaza", "America/Bahia", "Pacific/Apia", "Pacific/Kiritimati", "Europe/Paris", "UTC"]


def unit_range(d: D.date, unit):
    if unit == "month":
        return D.date(d.year, d.month, 1), D.date(d.year, d.month, calendar.monthrange(d.year, d.month)[1])
    if unit == "quarter":
        q = (d.month - 1) // 3
        return D.date(d.year, q * 3 + 1, 1), D.date(d.year, q * 3 + 3, calendar.monthrange(d.year, q * 3 + 3)[1])
    return D.date(d.year, 1, 1), D.date(d.year, 12, 31)


def occurrences(a, b, wd):
    first = a + D.timedelta(days=(wd - a.weekday()) % 7)
    out = []
    while first <= b:
        out.append(first)
        first += D.timedelta(days=7)
    return out


def ymd(x):
    return (x.year, x.month, x.day)


def check_value(tag, got, expected_date, base, keep_time=False):
    """got must be of base's type, on expected_date, at 00:00 (or base's time with keep_time), same zone"""
    req(type(got) is type(base), f"{tag}: returns {type(got).__name__} for a {type(base).__name__}")
    req(ymd(got) == ymd(expected_date), f"{tag}: lands on the wrong day", value=str(base), got=str(got), expected=str(expected_date))
    if isinstance(base, DateTime):
        req(got.timezone_name == base.timezone_name, f"{tag}: timezone not kept")
        want = (base.hour, base.minute, base.second, base.microsecond) if keep_time else (0, 0, 0, 0)
        req((got.hour, got.minute, got.second, got.microsecond) == want, f"{tag}: time of day is not {'kept' if keep_time else '00:00'}", got=str(got))


def wd_arg(wd, salt):
    """the weekday in one of the forms the API accepts: the WeekDay member, a plain int, the stdlib's calendar.Day member (equal, not identical)"""
    k = salt % 3
    if k == 1:
        return int(wd)
    if k == 2 and hasattr(calendar, "Day"):
        return calendar.Day(wd)
    return pendulum.WeekDay(wd)


def nav_checks(o, d: D.date, wd, nths, tagp=""):
    """all navigation methods of o (on date d) for weekday wd; returns count"""
    W, Wn = wd_arg(wd, d.toordinal()), pendulum.WeekDay(wd).name
    n = 0
    nxt = d + D.timedelta(days=(wd - d.weekday() - 1) % 7 + 1)
    prv = d - D.timedelta(days=(d.weekday() - wd - 1) % 7 + 1)
    check_value(f"{tagp}next({Wn})", o.next(W), nxt, o)
    check_value(f"{tagp}previous({Wn})", o.previous(W), prv, o)
    if isinstance(o, DateTime):
        check_value(f"{tagp}next({Wn}, keep_time)", o.next(W, keep_time=True), nxt, o, keep_time=True)
        check_value(f"{tagp}previous({Wn}, keep_time)", o.previous(W, keep_time=True), prv, o, keep_time=True)
    if wd == d.weekday():
        check_value(f"{tagp}next()", o.next(), d + D.timedelta(days=7), o)
        check_value(f"{tagp}previous()", o.previous(), d - D.timedelta(days=7), o)
    n += 4
    for unit in ("month", "quarter", "year"):
        a, b = unit_range(d, unit)
        oc = occurrences(a, b, wd)
        check_value(f"{tagp}first_of({unit}, {Wn})", o.first_of(unit, W), oc[0], o)
        check_value(f"{tagp}last_of({unit}, {Wn})", o.last_of(unit, W), oc[-1], o)
        check_value(f"{tagp}first_of({unit})", o.first_of(unit), a, o)
        check_value(f"{tagp}last_of({unit})", o.last_of(unit), b, o)
        n += 4
        for nth in sorted({x for x in nths(len(oc)) if x >= 1}):
            tag = f"{tagp}nth_of({unit}, {nth}, {Wn})"
            try:
                r = o.nth_of(unit, nth, W)
            except PendulumException:
                req(nth > len(oc), f"{tag}: raised although the unit holds {len(oc)} such days", value=str(o))
                n += 1
                continue
            req(nth <= len(oc), f"{tag}: returned {r} although the unit holds only {len(oc)} such days", value=str(o))
            check_value(tag, r, oc[nth - 1], o)
            n += 1
    return n


class Shapes(Sub):
    ambient = True
    """every month shape x weekday x n, Date and UTC DateTime"""
    name = "month_shapes"
    kind = "enum"
    case_timeout = 900.0
    backends = ("py",)
    n = {"quick": 0, "thorough": 0}
    shards = {"quick": 8, "thorough": 16}
    distinct_by_construction = True
    rule = ("every month of 2000..2027 (all 28 (length, first weekday) shapes, all 14 year shapes, every quarter) x day in {1, 15, last} x 7 weekdays x "
            "n in {1..6, count-1, count, count+1, count+2} (thorough: n = 1..54 for every unit) x {Date, DateTime UTC}; non-trivial: n >= count, or the weekday equals the unit's first weekday")

    def exhaustive(self, tier):
        return True

    def cases(self, ctx, shard, nshards):
        i = 0
        for y in range(2000, 2028):
            for m in range(1, 13):
                i += 1
                if i % nshards == shard:
                    yield {"y": y, "m": m}

    def check(self, case, ctx):
        y, m = case["y"], case["m"]
        dim = calendar.monthrange(y, m)[1]
        nths = (lambda c: set(range(1, 55))) if ctx.thorough else (lambda c: {1, 2, 3, 4, 5, 6, c - 1, c, c + 1, c + 2})
        n = 0
        for day in (1, 15, dim):
            d = D.date(y, m, day)
            for o in (pendulum.date(y, m, day), pendulum.datetime(y, m, day, 13, 14, 15, 16)):
                for wd in range(7):
                    n += nav_checks(o, d, wd, nths)
        ctx.cache["n"] = ctx.cache.get("n", 0) + n
        ctx.cache["evidence_extra"] = {"inner_evaluations": ctx.cache["n"], "inner_nontrivial": ctx.cache["n"] // 3}
        return False, f"shape-{dim}-{calendar.monthrange(y, m)[0]}"


def fragile_midnights(zone, dates):
    """dates whose midnight is skipped or repeated in zone"""
    out = []
    for dd in dates:
        w = T.naive_us(D.datetime(dd.year, dd.month, dd.day))
        if T.classify_wall(w, zone)[0] != "unique":
            out.append(dd)
    return out


@st.composite
def zone_case(draw):
    z = draw(st.sampled_from(MIDNIGHT_DST + LATE_EVENING_GAPS))
    tr = [t for t in T.transitions(z)]
    mode = draw(st.integers(0, 4))
    gaps = [x for x in tr if x[2] > x[1]]
    if gaps and mode == 4:
        # a value some days away from a gap whose TIME OF DAY lies inside the skipped interval (23:xx before a clock that jumps to 00:00, 00:xx after a
        # skipped midnight): navigation that keeps the time of day while it changes the date lands on a wall time that does not exist
        t, a, b = gaps[draw(st.integers(0, len(gaps) - 1))]
        inside = t * US + a * US + draw(S.uni(0, (b - a) * US - 1))          # a skipped wall value, in naive microseconds
        w = inside + draw(st.integers(-8, 8)) * DAY
        off = T.offset_at(S.clamp_u(w), z)
        u = S.clamp_u(w - off * US)
    elif tr and mode > 0:
        t, a, b = tr[draw(st.integers(0, len(tr) - 1))]
        u = S.clamp_u(t * US + draw(S.uni(-40 * DAY, 40 * DAY)))
    else:
        u = draw(S.uniform_instant())
    return {"zone": z, "u": u, "wd": draw(st.integers(0, 6)), "prov": draw(st.sampled_from(["convert", "construct"])),
            "nth": draw(st.integers(1, 6)), "unit": draw(st.sampled_from(["month", "quarter", "year"]))}


class Zones(Sub):
    ambient = True
    name = "zones_midnight_dst"
    n = {"quick": 3000, "thorough": 60000}
    shards = {"quick": 3, "thorough": 8}
    rule = ("DateTimes in zones whose DST changes at midnight (and whole-day skips), values within 40 days of a transition: next/previous/first_of/last_of/nth_of land on the "
            "brute-force date, zone kept; non-trivial: a midnight within the unit is skipped or repeated")

    def strategy(self, ctx):
        return zone_case()

    def check(self, case, ctx):
        z, u, wd = case["zone"], case["u"], case["wd"]
        r = T.render(u, z)
        if not 3 <= r.year <= 9996:
            raise Skip("year out of range")
        x = pendulum.instance(r) if case["prov"] == "convert" else pendulum.datetime(*T.fields(r), tz=z, fold=r.fold)
        req(T.us(x) == u, "harness: value not built at the instant")
        d = D.date(r.year, r.month, r.day)
        W, Wn = wd_arg(wd, d.toordinal() + case["nth"]), pendulum.WeekDay(wd).name
        unit, nth = case["unit"], case["nth"]
        a, b = unit_range(d, unit)
        oc = occurrences(a, b, wd)
        nxt = d + D.timedelta(days=(wd - d.weekday() - 1) % 7 + 1)
        prv = d - D.timedelta(days=(d.weekday() - wd - 1) % 7 + 1)
        plan = [("next", lambda: x.next(W), nxt), ("previous", lambda: x.previous(W), prv),
                ("first_of", lambda: x.first_of(unit, W), oc[0]), ("last_of", lambda: x.last_of(unit, W), oc[-1]),
                ("first_of-unit", lambda: x.first_of(unit), a), ("last_of-unit", lambda: x.last_of(unit), b)]
        if nth <= len(oc):
            plan.append(("nth_of", lambda: x.nth_of(unit, nth, W), oc[nth - 1]))
        # midnights the implementation touches: the value's own day, the 1st of every month of the unit, the unit's ends and
        # every occurrence of the weekday it may step on
        months = sorted({(dd.year, dd.month) for dd in (a, b)} | {(a.year, mm) for mm in range(a.month, b.month + 1)})
        touched = {d, a, b, nxt, prv} | {D.date(yy, mm, 1) for yy, mm in months} | set(oc)
        frag_all = fragile_midnights(z, sorted(touched))
        # the time of day of x on the first day of the unit's months (on()/set(month=...) keep the time)
        tod = T.naive_us(r) - T.naive_us(D.datetime(r.year, r.month, r.day))
        for yy, mm in months:
            dd = min(r.day, calendar.monthrange(yy, mm)[1])
            for day in (1, dd):
                if T.classify_wall(T.naive_us(D.datetime(yy, mm, day)) + tod, z)[0] != "unique":
                    frag_all.append(D.date(yy, mm, day))
        def day_missing(dd):
            """the calendar day dd does not exist in the zone (a whole day skipped: Pacific/Kiritimati 1994-12-31, Pacific/Apia 2011-12-30)"""
            k, _, g = T.classify_wall(T.naive_us(D.datetime(dd.year, dd.month, dd.day)), z)
            return k == "skipped" and g is not None and (g[2] - g[1]) >= 86400

        for nm, fn, exp in plan:
            if day_missing(exp):
                continue        # outside the asserted domain (ASSUMPTIONS): whatever is returned or raised
            try:
                got = fn()
            except (PendulumException, ValueError) as e:
                raise Violation(f"{nm}: raised {type(e).__name__}: {e}", value=str(x), fragile_midnights=[str(f) for f in frag_all[:3]])
            req(type(got) is DateTime and got.timezone_name == z, f"{nm}: type/zone not kept", got=repr(got))
            back = T.render(T.us(got), z)
            req(T.fields(back) == T.fields(got), f"{nm}: result is not a valid local time", got=str(got))
            wexp = T.naive_us(D.datetime(exp.year, exp.month, exp.day))
            kind = T.classify_wall(wexp, z)[0]
            if kind == "unique":
                check_value(nm, got, exp, x)
                continue
            # the target day's midnight is skipped or repeated: the result is the FIRST instant of that day - the time right after the gap,
            # or the earlier occurrence of the repeated midnight (the former known finding K-C12-1 accepted either side here)
            want = T.expected_construct(wexp, z, 1 if kind == "skipped" else 0)[1]
            if want is None:
                continue        # compound transition: the model does not commit
            req(T.us(got) == want, f"{nm}: lands on the wrong side of a {kind} midnight of the target day", got=str(got), expected=T.render(want, z).isoformat(), value=str(x))
        # keep_time=True: the target date at the value's own time of day; when that wall time is skipped or repeated there it is resolved like every
        # calendar shift (C04): on the post-transition side
        tod_us = T.naive_us(r) - T.naive_us(D.datetime(r.year, r.month, r.day))
        for nm, fn, exp in (("next(keep_time)", lambda: x.next(W, keep_time=True), nxt), ("previous(keep_time)", lambda: x.previous(W, keep_time=True), prv)):
            if day_missing(exp):
                continue
            want = T.expected_construct(T.naive_us(D.datetime(exp.year, exp.month, exp.day)) + tod_us, z, 1)[1]
            if want is None:
                continue
            got = fn()
            req(type(got) is DateTime and got.timezone_name == z, f"{nm}: type/zone not kept", got=repr(got))
            req(T.us(got) == want, f"{nm}: not the target date at the value's time of day (resolved on the post-transition side where that time is skipped/repeated)",
                got=str(got), expected=T.render(want, z).isoformat(), value=str(x))
        if nth > len(oc) and not any(day_missing(dd) for dd in (a, b)):
            try:
                rr = x.nth_of(unit, nth, W)
            except PendulumException:
                pass
            except ValueError as e:
                raise Violation(f"nth_of({unit}, {nth}) raised ValueError instead of PendulumException: {e}", value=str(x))
            else:
                raise Violation(f"nth_of({unit}, {nth}) returned {rr} although the unit holds only {len(oc)} such days")
        return bool(frag_all), "fragile-midnight-in-range" if frag_all else "plain"


class RandomYears(Sub):
    ambient = True
    name = "random_years"
    backends = ("py",)
    n = {"quick": 1500, "thorough": 40000}
    shards = {"quick": 3, "thorough": 8}
    rule = ("Date and UTC DateTime on uniformly drawn dates of years 2..9998 (century boundaries over-weighted), one weekday, n in {1..6, count-1..count+2}: the same brute-force oracle; "
            "non-trivial: century year or its neighbours, or n >= count")

    def strategy(self, ctx):
        year = st.one_of(st.integers(2, 9998), st.sampled_from([1899, 1900, 1901, 2099, 2100, 2101, 2200, 2400, 1600, 2108, 2192, 9996]))
        return st.fixed_dictionaries({"y": year, "m": st.integers(1, 12), "day": st.integers(1, 31), "wd": st.integers(0, 6), "dt": st.booleans()})

    def check(self, case, ctx):
        y, m = case["y"], case["m"]
        day = min(case["day"], calendar.monthrange(y, m)[1])
        d = D.date(y, m, day)
        o = pendulum.datetime(y, m, day, 7, 8, 9) if case["dt"] else pendulum.date(y, m, day)
        nav_checks(o, d, case["wd"], lambda c: {1, 2, 3, 4, 5, 6, c - 1, c, c + 1, c + 2})
        return y % 100 in (0, 1, 99), "century-edge" if y % 100 in (0, 1, 99) else "plain"


SUBS = [Shapes(), Zones(), RandomYears()]
