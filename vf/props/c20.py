"""C20 — Time-of-day arithmetic wraps modulo 24 hours exactly."""
from __future__ import annotations

import datetime as D
from fractions import Fraction

from hypothesis import strategies as st

import pendulum
from pendulum import Time
from vf import strategies as S
from vf.core import Sub, Violation, req

DAY = 86400 * 10**6
RULE = "oracle: integer microseconds modulo 86400e6"
ASSUMPTIONS = ["Time values are naive (tzinfo None): the property speaks about times of day"]


def tus(t):
    return ((t.hour * 60 + t.minute) * 60 + t.second) * 10**6 + t.microsecond


def hmsu(u):
    u %= DAY
    s, us = divmod(u, 10**6)
    h, r = divmod(s, 3600)
    m, s = divmod(r, 60)
    return (h, m, s, us)


def mk(u):
    return Time(*hmsu(u))


def tdus(td):
    return (D.timedelta.days.__get__(td) * 86400 + D.timedelta.seconds.__get__(td)) * 10**6 + D.timedelta.microseconds.__get__(td)


tod = st.one_of(
    st.sampled_from([0, 1, DAY - 1, DAY // 2, 10**6 - 1, 10**6, DAY - 10**6, 3600 * 10**6 - 1]),
    S.uni(0, DAY - 1),
    st.builds(lambda s, u: s * 10**6 + u, st.integers(0, 86399), st.sampled_from([0, 1, 999999, 500000])),
)

amount = st.fixed_dictionaries({}, optional={
    "hours": st.integers(-200, 200),
    "minutes": st.integers(-10000, 10000),
    "seconds": st.integers(-10**6, 10**6),
    "microseconds": st.one_of(S.uni(-10**7, 10**7), S.uni(-3 * DAY, 3 * DAY)),
})


# the repository's own tests pass fractional seconds (add(seconds=1.9)): dyadic fractions k/64 s are exact in microseconds
amount_float = st.fixed_dictionaries({"seconds": st.integers(-64 * 100000, 64 * 100000).map(lambda k: k / 64)},
                                     optional={"hours": st.integers(-30, 30), "minutes": st.integers(-100, 100), "microseconds": st.integers(-3 * 10**6, 3 * 10**6)})


def total(a):
    t = ((a.get("hours", 0) * 60 + a.get("minutes", 0)) * 60 + Fraction(a.get("seconds", 0))) * 10**6 + a.get("microseconds", 0)
    assert t.denominator == 1, a
    return int(t)


class AddSub(Sub):
    ambient = True
    name = "add_subtract"
    backends = ("py",)
    n = {"quick": 12000, "thorough": 400000}
    shards = {"quick": 4, "thorough": 16}
    rule = "integer amounts and dyadic float seconds; non-trivial: the shift wraps across midnight, or microseconds are involved, or the amount has mixed signs"

    def strategy(self, ctx):
        return st.fixed_dictionaries({"t": tod, "amt": st.one_of(amount, amount, amount, amount_float)})

    def check(self, case, ctx):
        t0 = case["t"]
        a = case["amt"]
        tot = total(a)
        t = mk(t0)
        r = t.add(**a)
        req(type(r) is Time, "add() does not return a Time", got=type(r).__name__)
        req(tus(r) == (t0 + tot) % DAY, "add() result differs from (t + amount) mod 24h", got=str(r), expected=hmsu(t0 + tot))
        req(r.tzinfo is None, "add() result has a tzinfo", got=repr(r.tzinfo))
        r2 = t.subtract(**a)
        req(type(r2) is Time, "subtract() does not return a Time", got=type(r2).__name__)
        req(tus(r2) == (t0 - tot) % DAY, "subtract() result differs from (t - amount) mod 24h", got=str(r2), expected=hmsu(t0 - tot))
        b = r.subtract(**a)
        req(type(b) is Time and tus(b) == t0, "subtract() does not undo add()", got=str(b), start=str(t))
        b2 = r2.add(**a)
        req(type(b2) is Time and tus(b2) == t0, "add() does not undo subtract()", got=str(b2), start=str(t))
        wraps = not (0 <= t0 + tot < DAY)
        signs = {(v > 0) - (v < 0) for v in a.values()} - {0}
        nt = wraps or (t0 % 10**6 != 0) or (tot % 10**6 != 0) or len(signs) > 1
        return nt, "wrap" if wraps else "nowrap"


tdelta = st.one_of(
    st.builds(lambda s, u: [0, s, u], st.integers(0, 86399), st.sampled_from([0, 1, 999999]) | st.integers(0, 999999)),
    st.builds(lambda d, s, u: [d, s, u], st.integers(-3, 3), st.integers(0, 86399), st.integers(0, 999999)),
)


class Timedelta(Sub):
    ambient = True
    name = "timedelta_ops"
    backends = ("py",)
    n = {"quick": 8000, "thorough": 200000}
    shards = {"quick": 2, "thorough": 8}
    rule = ("the same amount as a native timedelta, a Duration, a Duration(hours=..), t2 - t and t.diff(t2); non-trivial: wraps across midnight, or non-zero microseconds, or a day "
            "component (must be rejected)")

    def strategy(self, ctx):
        return st.fixed_dictionaries({"t": tod, "td": tdelta})

    def check(self, case, ctx):
        t0 = case["t"]
        d, s, u = case["td"]
        td = D.timedelta(days=d, seconds=s, microseconds=u)
        t = mk(t0)
        ops = (("+", lambda: t + td, 1), ("-", lambda: t - td, -1),
               ("add_timedelta", lambda: t.add_timedelta(td), 1), ("subtract_timedelta", lambda: t.subtract_timedelta(td), -1))
        if td.days != 0:
            pdd = pendulum.duration(days=d, seconds=s, microseconds=u)
            for nm, f, sg in ops + (("+ Duration", lambda: t + pdd, 1), ("- Duration", lambda: t - pdd, -1)):
                try:
                    r = f()
                except TypeError:
                    continue
                raise Violation(f"Time {nm} timedelta with a day component is not rejected", got=str(r), td=str(td))
            return True, "days-rejected"
        amt = tdus(td)
        for nm, f, sg in ops:
            r = f()
            req(type(r) is Time, f"Time {nm} timedelta does not return a Time", got=type(r).__name__)
            req(tus(r) == (t0 + sg * amt) % DAY, f"Time {nm} timedelta is not (t {'+' if sg > 0 else '-'} td) mod 24h",
                got=str(r), expected=hmsu(t0 + sg * amt))
        # the same amounts as pendulum's own timedelta subclasses (what t2 - t1, diff() and duration() hand back): a Duration is a timedelta
        t2 = mk((t0 + amt) % DAY)
        variants = [("Duration", pendulum.duration(seconds=s, microseconds=u)),
                    ("Duration(h,m,s)", pendulum.duration(hours=abs(amt) // (3600 * 10**6) * (1 if amt >= 0 else -1), microseconds=amt - abs(amt) // (3600 * 10**6) * (1 if amt >= 0 else -1) * 3600 * 10**6))]
        if 0 <= t0 + amt < DAY:
            variants.append(("t2 - t", t2 - t))
            variants.append(("t.diff(t2, False)", t.diff(t2, False)))
        for vn, pd in variants:
            req(tdus(pd) == amt, "harness: variant operand has another length", variant=vn, got=tdus(pd), expected=amt)
            for nm, f, sg in (("+", lambda: t + pd, 1), ("-", lambda: t - pd, -1), ("add_timedelta", lambda: t.add_timedelta(pd), 1),
                              ("subtract_timedelta", lambda: t.subtract_timedelta(pd), -1)):
                r = f()
                req(type(r) is Time, f"Time {nm} {vn} does not return a Time", got=type(r).__name__)
                req(tus(r) == (t0 + sg * amt) % DAY, f"Time {nm} {vn} is not (t {'+' if sg > 0 else '-'} amount) mod 24h", got=str(r), expected=hmsu(t0 + sg * amt),
                    operand=repr(pd))
        back = (t + td) - td
        req(tus(back) == t0, "(t + td) - td != t", got=str(back))
        wraps = t0 + amt >= DAY or t0 - amt < 0
        return (wraps or u != 0 or t0 % 10**6 != 0), "wrap" if wraps else "nowrap"


class Diff(Sub):
    ambient = True
    name = "diff_closest"
    backends = ("py",)
    n = {"quick": 10000, "thorough": 300000}
    shards = {"quick": 2, "thorough": 8}
    rule = "non-trivial: at least one operand has non-zero microseconds, or two candidates are less than one second apart in distance"

    def strategy(self, ctx):
        near = st.builds(lambda a, d: (a + d) % DAY, tod, st.integers(-2 * 10**6, 2 * 10**6))
        return st.one_of(
            st.fixed_dictionaries({"t": tod, "t2": tod, "t3": tod}),
            st.builds(lambda t, d2, d3: {"t": t, "t2": (t + d2) % DAY, "t3": (t + d3) % DAY}, tod,
                      st.integers(-2 * 10**6, 2 * 10**6), st.integers(-2 * 10**6, 2 * 10**6)),
            st.fixed_dictionaries({"t": tod, "t2": near, "t3": near}),
        )

    def check(self, case, ctx):
        a, b, c = case["t"], case["t2"], case["t3"]
        t, t2, t3 = mk(a), mk(b), mk(c)
        exp = b - a
        d = t.diff(t2, False)
        req(isinstance(d, pendulum.Duration), "diff() does not return a Duration")
        req(tdus(d) == exp, "diff(abs=False) is not the signed difference of the two times of day", got=tdus(d), expected=exp)
        dabs = t.diff(t2)
        req(dabs.total_seconds() >= 0, "diff() (abs=True) is negative", got=dabs.total_seconds())
        req(round(dabs.total_seconds() * 10**6) == abs(exp), "diff() (abs=True) is not the magnitude of the difference",
            got=dabs.total_seconds(), expected=abs(exp) / 10**6)
        # the magnitude's own components (what diff() with abs=True reports: hours, minutes, remaining_seconds, microseconds) add up to the distance, in either
        # order of the operands, and as an operand of + / - it moves the earlier time onto the later one and back.  (The native timedelta slots of an
        # AbsoluteDuration keep the sign of what it was built from - by design, and not what the property observes; see DESIGN 0.3.)
        for nm, dd in (("t.diff(t2)", dabs), ("t2.diff(t)", t2.diff(t))):
            comp = ((((dd.weeks * 7 + dd.remaining_days) * 24 + dd.hours) * 60 + dd.minutes) * 60 + dd.remaining_seconds) * 10**6 + dd.microseconds
            req(comp == abs(exp), f"{nm}: hours/minutes/remaining_seconds/microseconds do not add up to the distance", got=comp, expected=abs(exp))
            req(dd.in_seconds() == abs(exp) // 10**6, f"{nm}: in_seconds() is not the distance truncated", got=dd.in_seconds(), expected=abs(exp) // 10**6)
            if D.timedelta.days.__get__(dd) != 0:
                continue        # built later-first: natively a negative timedelta, i.e. one with a day component (-1), which + / - reject like any other
            lo_t, hi_t = (t, t2) if a <= b else (t2, t)
            r = lo_t + dd
            req(type(r) is Time and tus(r) == max(a, b), f"earlier + {nm} is not the later time", got=str(r), expected=hmsu(max(a, b)))
            r = hi_t - dd
            req(type(r) is Time and tus(r) == min(a, b), f"later - {nm} is not the earlier time", got=str(r), expected=hmsu(min(a, b)))
        d = t2 - t
        req(tdus(d) == exp, "t2 - t is not the signed difference", got=tdus(d), expected=exp)
        n = D.time(*hmsu(a))
        n2 = D.time(*hmsu(b))
        req(tdus(t2 - n) == exp, "Time - native time is not the signed difference", got=tdus(t2 - n), expected=exp)
        req(tdus(n2 - t) == exp, "native time - Time is not the signed difference", got=tdus(n2 - t), expected=exp)
        d2, d3 = abs(b - a), abs(c - a)
        cl = t.closest(t2, t3)
        fa = t.farthest(t2, t3)
        req(type(cl) is Time and type(fa) is Time, "closest/farthest do not return Time")
        if d2 != d3:
            req(tus(cl) == (b if d2 < d3 else c), "closest() did not choose the nearer time", got=str(cl), d2=d2, d3=d3)
            req(tus(fa) == (b if d2 > d3 else c), "farthest() did not choose the farther time", got=str(fa), d2=d2, d3=d3)
        else:
            req(tus(cl) in (b, c) and tus(fa) in (b, c), "closest/farthest returned neither candidate")
        # native candidates are accepted too
        cl2 = t.closest(D.time(*hmsu(b)), D.time(*hmsu(c)))
        req(tus(cl2) == tus(cl), "closest() with native times differs", got=str(cl2))
        sub = (a % 10**6 or b % 10**6 or c % 10**6) != 0
        return (sub or (d2 != d3 and d2 // 10**6 == d3 // 10**6)), "subsecond" if sub else "whole"


SUBS = [AddSub(), Timedelta(), Diff()]
