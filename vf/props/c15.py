"""C15 — Calendar primitives agree with the proleptic Gregorian calendar in both backends."""
from __future__ import annotations

import calendar
import math
import datetime as D
import warnings

from hypothesis import strategies as st

import pendulum
import pendulum._helpers as PY
import pendulum._pendulum as RS
import pendulum.helpers as HLP
from vf import strategies as S
from vf.core import Sub, Violation, req

warnings.simplefilter("ignore")
RULE = "oracle: calendar.isleap, date.isocalendar/isoweekday/timetuple, calendar.monthrange/monthcalendar, naive datetime arithmetic; Python result == Rust result"
ASSUMPTIONS = ["CPython's datetime/calendar implement the proleptic Gregorian calendar"]
EP = D.datetime(1970, 1, 1)
QUICK_YEARS = sorted(set(list(range(1, 41)) + list(range(1580, 1621)) + list(range(1890, 2111)) + list(range(9960, 10000))))


class Years(Sub):
    ambient = True
    name = "years"
    kind = "enum"
    case_timeout = 900.0
    backends = ("rust",)
    n = {"quick": 0, "thorough": 0}
    shards = {"quick": 2, "thorough": 2}
    distinct_by_construction = True
    rule = "all years 1..9999: is_leap, is_long_year, days_in_year in both backends + Date getters; non-trivial: century years and long years"

    def exhaustive(self, tier):
        return True

    def cases(self, ctx, shard, nshards):
        for y in range(1 + shard, 10000, nshards):
            yield {"y": y}

    def check(self, case, ctx):
        y = case["y"]
        leap = calendar.isleap(y)
        long_ = D.date(y, 12, 28).isocalendar()[1] == 53
        for nm, m in (("python", PY), ("rust", RS)):
            req(m.is_leap(y) is leap or m.is_leap(y) == leap, f"{nm} is_leap({y}) wrong", got=m.is_leap(y))
            req(bool(m.is_long_year(y)) == long_, f"{nm} is_long_year({y}) wrong", got=m.is_long_year(y))
            req(m.days_in_year(y) == (366 if leap else 365), f"{nm} days_in_year({y}) wrong", got=m.days_in_year(y))
        p = pendulum.date(y, 6, 15)
        req(p.is_leap_year() == leap and p.is_long_year() == long_, "Date.is_leap_year/is_long_year wrong", year=y)
        q = pendulum.datetime(y, 6, 15)
        req(q.is_leap_year() == leap and q.is_long_year() == long_, "DateTime.is_leap_year/is_long_year wrong", year=y)
        return (y % 100 == 0 or long_), "century" if y % 100 == 0 else "long" if long_ else "plain"


def check_date(d: D.date, deep: bool):
    wd = d.isoweekday()
    a, b = PY.week_day(d.year, d.month, d.day), RS.week_day(d.year, d.month, d.day)
    req(a == wd, "python week_day wrong", date=str(d), got=a, expected=wd)
    req(b == wd, "rust week_day wrong", date=str(d), got=b, expected=wd)
    for p in ((pendulum.Date(d.year, d.month, d.day), pendulum.DateTime(d.year, d.month, d.day, 13, 1, 2)) if deep else (pendulum.Date(d.year, d.month, d.day),)):
        nm = type(p).__name__
        req(p.day_of_year == d.timetuple().tm_yday, f"{nm}.day_of_year wrong", date=str(d), got=p.day_of_year)
        req(int(p.day_of_week) == d.weekday(), f"{nm}.day_of_week wrong", date=str(d), got=int(p.day_of_week))
        req(p.week_of_year == d.isocalendar()[1], f"{nm}.week_of_year wrong", date=str(d), got=p.week_of_year)
        req(p.days_in_month == calendar.monthrange(d.year, d.month)[1], f"{nm}.days_in_month wrong", date=str(d), got=p.days_in_month)
        req(p.quarter == (d.month - 1) // 3 + 1, f"{nm}.quarter wrong", date=str(d), got=p.quarter)
        req(p.is_leap_year() == calendar.isleap(d.year), f"{nm}.is_leap_year wrong", date=str(d))
        wom = next(i for i, row in enumerate(MONCAL.monthdayscalendar(d.year, d.month), 1) if d.day in row)
        req(p.week_of_month == wom, f"{nm}.week_of_month wrong", date=str(d), got=p.week_of_month, expected=wom)


class Dates(Sub):
    ambient = True
    name = "dates"
    kind = "enum"
    case_timeout = 900.0
    backends = ("rust",)
    n = {"quick": 0, "thorough": 0}
    shards = {"quick": 8, "thorough": 16}
    distinct_by_construction = True
    rule = ("every date of the tier's years: week_day in both backends + getters day_of_week, day_of_year, week_of_year, week_of_month, days_in_month, "
            "quarter, is_leap_year; quick = years 1-40, 1580-1620, 1890-2110, 9960-9999; thorough = all 3,652,059 dates; one case = one year; "
            "non-trivial dates: first/last day of a year, Feb 28/29, Mar 1")

    def exhaustive(self, tier):
        return tier == "thorough"

    def cases(self, ctx, shard, nshards):
        years = range(1, 10000) if ctx.thorough else QUICK_YEARS
        for i, y in enumerate(years):
            if i % nshards == shard:
                yield {"y": y}

    def check(self, case, ctx):
        y = case["y"]
        d = D.date(y, 1, 1)
        n = nt = 0
        one = D.timedelta(days=1)
        deep = (not ctx.thorough) or y % 4 == 0
        while True:
            check_date(d, deep)
            n += 1
            nt += (d.month, d.day) in ((1, 1), (12, 31), (2, 28), (2, 29), (3, 1))
            if d.month == 12 and d.day == 31:
                break
            d += one
        ctx.cache["n"] = ctx.cache.get("n", 0) + n
        ctx.cache["nt"] = ctx.cache.get("nt", 0) + nt
        ctx.cache["evidence_extra"] = {"inner_evaluations": ctx.cache["n"], "inner_nontrivial": ctx.cache["nt"]}
        return False, "year-row"


MONCAL = calendar.Calendar(calendar.MONDAY)   # the oracle must not depend on calendar.setfirstweekday() either
MIN_TS = int((D.datetime(1, 1, 1) - EP).total_seconds())
MAX_TS = int((D.datetime(9999, 12, 31, 23, 59, 59) - EP).total_seconds())
LO = int((D.datetime(1, 1, 3) - EP).total_seconds())
HI = int((D.datetime(9999, 12, 29) - EP).total_seconds())


def check_local_time(t, off, us):
    e = EP + D.timedelta(seconds=t + off)
    exp = (e.year, e.month, e.day, e.hour, e.minute, e.second, us)
    for nm, m in (("python", PY), ("rust", RS), ("pendulum.helpers (the dispatching module pendulum itself imports from)", HLP)):
        g = tuple(m.local_time(t, off, us))
        req(g == exp, f"{nm} local_time({t}, {off}, {us}) wrong", got=g, expected=exp)


class LocalTimeBoundaries(Sub):
    name = "local_time_day_boundaries"
    kind = "enum"
    case_timeout = 900.0
    backends = ("rust",)
    n = {"quick": 0, "thorough": 0}
    shards = {"quick": 8, "thorough": 16}
    distinct_by_construction = True
    rule = "every day boundary of the tier's years at {-1 s, 0, +1 s} x offsets {0, two offsets derived from the year}; quick = sample years, thorough = all years 1..9999; non-trivial: negative timestamp or non-zero offset"

    def exhaustive(self, tier):
        return tier == "thorough"

    def cases(self, ctx, shard, nshards):
        years = range(2, 9999) if ctx.thorough else [y for y in QUICK_YEARS if 2 <= y <= 9998]
        for i, y in enumerate(years):
            if i % nshards == shard:
                yield {"y": y}

    def check(self, case, ctx):
        y = case["y"]
        t0 = int((D.datetime(y, 1, 1) - EP).total_seconds())
        ndays = 366 if calendar.isleap(y) else 365
        offs = (0, (y * 7919) % 86400 - 43200, -((y * 104729) % 86399))
        n = 0
        for k in range(ndays):
            t = t0 + k * 86400
            for dt in (-1, 0, 1):
                for off in offs:
                    check_local_time(t + dt, off, (k * 37 + y) % 10**6)
                    n += 1
        ctx.cache["n"] = ctx.cache.get("n", 0) + n
        ctx.cache["evidence_extra"] = {"inner_evaluations": ctx.cache["n"], "inner_nontrivial": ctx.cache["n"] - (ndays if y >= 1970 else 0)}
        return False, "year-row"


class LocalTimeRandom(Sub):
    name = "local_time_random"
    backends = ("rust",)
    n = {"quick": 30000, "thorough": 1000000}
    shards = {"quick": 4, "thorough": 16}
    rule = "random seconds x offsets -86399..86399 x microseconds; non-trivial: negative timestamp or offset pushing across a day boundary"

    def strategy(self, ctx):
        # the two ends of the representable range: the LOCAL broken-down time is inside years 1..9999 although the UTC instant may lie up to a day outside
        edge = st.builds(lambda base, d, off: {"t": base + d - off, "off": off}, st.sampled_from([MIN_TS, MAX_TS]), st.integers(-3, 3) | st.integers(-90000, 90000),
                         st.sampled_from([0, 3600, -3600, 86399, -86399, 19800]) | st.integers(-86399, 86399)).filter(lambda c: MIN_TS <= c["t"] + c["off"] <= MAX_TS)
        rest = {"us": st.sampled_from([0, 1, 999999]) | st.integers(0, 999999), "frac": st.sampled_from([0.5, 0.25, 0.75, 0.001, 0.999]) | st.floats(0, 0.9999, allow_nan=False)}
        plain = st.fixed_dictionaries(dict(rest, t=st.one_of(S.uni(LO, HI), S.uni(-10**10, 10**10)),
                                           off=st.one_of(st.sampled_from([0, -86399, 86399, 3600, -3600, 19800]), st.integers(-86399, 86399))))
        edges = st.builds(lambda e, r: dict(r, **e), edge, st.fixed_dictionaries(rest))
        return st.one_of(plain, plain, plain, edges)

    def check(self, case, ctx):
        t, off, us = case["t"], case["off"], case["us"]
        check_local_time(t, off, us)
        g1 = tuple(PY.local_time(float(t), off, us))
        g2 = tuple(RS.local_time(float(t), off, us))
        req(g1 == g2 == tuple(PY.local_time(t, off, us)), "float timestamp handled differently from the equal int", got=[g1, g2])
        # a fractional timestamp (what from_format's X / x tokens pass) denotes the second it lies in: floor, also below zero
        tf = float(t) + case.get("frac", 0.5)
        if not MIN_TS <= math.floor(tf) + off <= MAX_TS:
            return True, "edge"
        e = EP + D.timedelta(seconds=math.floor(tf) + off)
        exp = (e.year, e.month, e.day, e.hour, e.minute, e.second, us)
        for nm, m in (("python", PY), ("rust", RS), ("pendulum.helpers", HLP)):
            g = tuple(m.local_time(tf, off, us))
            req(g == exp, f"{nm} local_time({tf!r}, {off}, {us}) is not the broken-down time of the second containing it", got=g, expected=exp)
        return t < 0 or (t // 86400 != (t + off) // 86400), "neg" if t < 0 else "pos"


from vf import oracle_tz as T  # noqa: E402


class AwareGetters(Sub):
    ambient = True
    name = "aware_getters_across_zones"
    backends = ("rust", "py")
    n = {"quick": 6000, "thorough": 150000}
    shards = {"quick": 2, "thorough": 8}
    rule = ("one instant within 14 h of a year (or month) boundary rendered in two zones and UTC, the getters called on the three equal-instant values one after the other: each must "
            "describe ITS OWN local date (aware datetimes of one instant are == and hash-equal, so anything keyed on the value must not leak); non-trivial: the local dates differ")

    def strategy(self, ctx):
        zone = st.sampled_from(["Pacific/Kiritimati", "Pacific/Auckland", "Asia/Tokyo", "Asia/Kolkata", "Europe/Paris", "UTC", "America/New_York", "America/Los_Angeles",
                                "Pacific/Honolulu", "Pacific/Pago_Pago", "Pacific/Apia", "Australia/Lord_Howe"])
        return st.fixed_dictionaries({"y": st.integers(3, 9997), "m": st.sampled_from([1, 1, 1, 3, 7, 12]), "d": S.uni(-14 * 3600 * 10**6, 14 * 3600 * 10**6), "z1": zone, "z2": zone})

    def check(self, case, ctx):
        u = T.naive_us(D.datetime(case["y"], case["m"], 1)) + case["d"]
        dates = set()
        for z in (case["z1"], case["z2"], "UTC", case["z1"]):
            r = T.render(u, z)
            p = pendulum.instance(r)
            d = D.date(r.year, r.month, r.day)
            dates.add(d)
            exp = {"day_of_week": d.weekday(), "day_of_year": d.timetuple().tm_yday, "week_of_year": d.isocalendar()[1], "days_in_month": calendar.monthrange(d.year, d.month)[1],
                   "quarter": (d.month - 1) // 3 + 1, "week_of_month": next(i for i, row in enumerate(MONCAL.monthdayscalendar(d.year, d.month), 1) if d.day in row)}
            for k, v in exp.items():
                req(int(getattr(p, k)) == v, f"DateTime.{k} does not describe the value's own local date", value=r.isoformat(), got=int(getattr(p, k)), expected=v)
            req(p.is_leap_year() == calendar.isleap(d.year), "DateTime.is_leap_year() does not describe the value's own local year", value=r.isoformat())
            req(p.is_long_year() == (D.date(d.year, 12, 28).isocalendar()[1] == 53), "DateTime.is_long_year() does not describe the value's own local year", value=r.isoformat(),
                got=p.is_long_year())
        return len(dates) > 1, "dates-differ" if len(dates) > 1 else "same-date"


def _skipped_first_midnights():
    """(zone, year, month) of every month whose first wall-clock midnight does not exist in the zone (all zones of the tz database)."""
    import zoneinfo
    out = []
    for z in sorted(zoneinfo.available_timezones()):
        try:
            tr = T.transitions(z)
        except Exception:
            continue
        for t, a, b in tr:
            if b > a:
                w = EP + D.timedelta(seconds=t + a)
                if (w.day, w.hour, w.minute, w.second) == (1, 0, 0, 0) and 2 <= w.year <= 9998:
                    out.append((z, w.year, w.month))
    return out


class GettersSkippedMidnight(Sub):
    ambient = True
    name = "getters_month_without_first_midnight"
    kind = "enum"
    case_timeout = 900.0
    backends = ("rust", "py")
    n = {"quick": 0, "thorough": 0}
    shards = {"quick": 4, "thorough": 8}
    distinct_by_construction = True
    rule = ("every month of every zone whose first midnight is skipped x days {1, 2, 8, 15, last} at noon x value obtained by instance() (fold 0), by the constructor "
            "(fold 1) and by conversion from UTC: the getters describe the value's own local date (the getters must not depend on aware arithmetic landing on the "
            "1st); all cases non-trivial")

    def exhaustive(self, tier):
        return True

    def cases(self, ctx, shard, nshards):
        for i, (z, y, m) in enumerate(_skipped_first_midnights()):
            if i % nshards == shard:
                yield {"zone": z, "y": y, "m": m}

    def check(self, case, ctx):
        z, y, m = case["zone"], case["y"], case["m"]
        last = calendar.monthrange(y, m)[1]
        n = 0
        for day in (1, 2, 8, 15, last):
            d = D.date(y, m, day)
            exp = {"day_of_week": d.weekday(), "day_of_year": d.timetuple().tm_yday, "week_of_year": d.isocalendar()[1], "days_in_month": last,
                   "quarter": (m - 1) // 3 + 1, "week_of_month": next(i for i, row in enumerate(MONCAL.monthdayscalendar(y, m), 1) if day in row)}
            native = D.datetime(y, m, day, 12, tzinfo=T.zi(z))
            vals = {"instance": pendulum.instance(native), "constructor": pendulum.datetime(y, m, day, 12, tz=z),
                    "converted": pendulum.instance(native.astimezone(D.timezone.utc)).in_timezone(z)}
            for prov, p in vals.items():
                req((p.year, p.month, p.day) == (y, m, day), "harness: value is not on the intended local date", got=p.isoformat())
                for k, v in exp.items():
                    n += 1
                    req(int(getattr(p, k)) == v, f"DateTime.{k} does not describe the value's own local date", value=p.isoformat(), provenance=prov, fold=p.fold,
                        got=int(getattr(p, k)), expected=v)
        ctx.cache["n"] = ctx.cache.get("n", 0) + n
        ctx.cache["evidence_extra"] = {"inner_evaluations": ctx.cache["n"], "inner_nontrivial": ctx.cache["n"]}
        return True, "month-without-first-midnight"


PROCESS_TZ = ["Asia/Tokyo", "America/St_Johns", "Pacific/Apia", "Asia/Kathmandu", "America/New_York", "Europe/London", "Australia/Lord_Howe", "Pacific/Kiritimati",
              "America/Sao_Paulo", "Africa/Monrovia", "Etc/GMT+12", "JST-9", "EST5EDT,M3.2.0,M11.1.0", "<-0330>3:30", ""]


class ProcessTimeZone(Sub):
    """the primitives are statements about the proleptic Gregorian calendar: the zone the *process* runs in (TZ at the moment pendulum is imported) is not an input"""
    name = "process_environment"
    backends = ("rust", "py")
    n = {"quick": 96, "thorough": 1600}
    shards = {"quick": 4, "thorough": 8}
    case_timeout = 600.0
    rule = ("a fresh interpreter per case with TZ set before pendulum is imported (named zones, POSIX strings, unset) x interpreter flags (none, -O, -OO) x backend; "
            "12 (timestamp, offset, us) triples and 6 years per interpreter; non-trivial: TZ not at offset 0, or an optimisation flag")

    def strategy(self, ctx):
        trip = st.tuples(st.one_of(S.uni(LO, HI), S.uni(-10**10, 10**10), st.sampled_from([0, -1, 946684800, 946684799, 951782400])),
                         st.one_of(st.sampled_from([0, 3600, -3600, 32400, -12600]), st.integers(-86399, 86399)), st.sampled_from([0, 1, 999999]))
        return st.fixed_dictionaries({"tz": st.one_of(st.sampled_from(PROCESS_TZ), S.zones()), "flags": st.sampled_from(["", "", "-O", "-OO"]), "cases": st.lists(trip, min_size=12, max_size=12),
                                      "years": st.lists(st.one_of(st.integers(1, 9999), st.sampled_from([1, 4, 100, 400, 1900, 2000, 2015, 2020, 9999])), min_size=6, max_size=6)})

    def check(self, case, ctx):
        import json
        import os
        import subprocess
        import sys
        from vf import env
        e = dict(os.environ)
        e["PYTHONPATH"] = env.pythonpath()
        e["PENDULUM_EXTENSIONS"] = "1" if ctx.backend == "rust" else "0"
        if case["tz"]:
            e["TZ"] = case["tz"]
        else:
            e.pop("TZ", None)
        flags = [case["flags"]] if case.get("flags") else []
        r = subprocess.run([sys.executable] + flags + ["-m", "vf.tz_child"], input=json.dumps({"backend": ctx.backend, "cases": case["cases"], "years": case["years"]}),
                           env=e, cwd=env.VERIF, capture_output=True, text=True, timeout=300)
        if r.returncode == 3:
            raise Violation(f"a calendar primitive raised in a process started with TZ={case['tz']!r}, flags {case.get('flags')!r}: " + (r.stderr.strip().split("\n") or ["?"])[-1][:200])
        if r.returncode != 0:
            raise env.HarnessError("tz_child failed:\n" + (r.stderr or r.stdout)[-2000:])
        out = json.loads(r.stdout)
        names = ("python", "rust", "pendulum.helpers")
        for (t, off, us), got in zip(case["cases"], out["local_time"]):
            x = EP + D.timedelta(seconds=t + off)
            exp = [x.year, x.month, x.day, x.hour, x.minute, x.second, us]
            for nm, g in zip(names, got):
                req(g == exp, f"{nm} local_time({t}, {off}, {us}) depends on the time zone of the process (TZ={case['tz']!r} at import)", got=g, expected=exp)
        for (t, off, us), g in zip(case["cases"], out["getters"]):
            x = EP + D.timedelta(seconds=t)
            ic = x.isocalendar()
            exp = [x.year, x.month, x.day, x.hour, x.minute, x.second, x.weekday(), x.timetuple().tm_yday, ic[1], calendar.monthrange(x.year, x.month)[1],
                   (x.month - 1) // 3 + 1]
            req(g == exp, f"from_timestamp({t}) fields/getters depend on the time zone of the process (TZ={case['tz']!r} at import)", got=g, expected=exp)
        for y, got in zip(case["years"], out["years"]):
            exp = [calendar.isleap(y), D.date(y, 12, 28).isocalendar()[1] == 53, 366 if calendar.isleap(y) else 365, D.date(y, 3, 1).isoweekday()]
            for nm, g in zip(names, got):
                req(g == exp, f"{nm} year primitives for {y} depend on the time zone of the process (TZ={case['tz']!r})", got=g, expected=exp)
        return (out["utc_offset_2000"] != 0 or out["tzname"][0] not in ("UTC", "GMT") or bool(case.get("flags"))), \
            ("tz-offset-nonzero" if out["utc_offset_2000"] else "tz-offset-zero") + (":" + case["flags"] if case.get("flags") else "")


SUBS = [Years(), Dates(), LocalTimeBoundaries(), LocalTimeRandom(), AwareGetters(), GettersSkippedMidnight(), ProcessTimeZone()]
