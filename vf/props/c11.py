"""C11 — DateTime, Date and Time are drop-in replacements for the native classes."""
from __future__ import annotations

import datetime as D
import operator
import warnings

from hypothesis import strategies as st

import pendulum
from pendulum import Date, DateTime, Time
from vf import oracle_tz as T
from vf import strategies as S
from vf.core import Skip, Sub, Violation, req

warnings.simplefilter("ignore")
US = 10**6
RULE = ("native-twin oracle: for a pendulum value p, n_same = native datetime with the same fields, fold and the *same tzinfo object*, n_zi = same with ZoneInfo; "
        "unary accessors must equal the twin's, binary operators are checked by substitution op(p, x) == op(n_same, x)")
ASSUMPTIONS = ["ordering by instants is asserted for pairs with different tzinfo objects and for same-tzinfo pairs whose wall order agrees with their instant order; "
               "for the contradictory pairs (same tzinfo straddling a fold) 'same as native' is what is checked",
               "subtraction is compared with native subtraction where the native result is the elapsed time (different tzinfo objects or equal offsets); "
               "same-tzinfo pairs with unequal offsets are governed by C05"]
UNARY = ["isoformat", "timetuple", "utctimetuple", "toordinal", "weekday", "isoweekday", "isocalendar", "timestamp", "utcoffset", "tzname", "dst", "ctime",
         "date", "time", "timetz"]
FMT = ["%Y-%m-%d %H:%M:%S.%f %z %Z", "%j %a %A %b %B %p %I", "%U %W %w %y %G %V %u %%", "%c", "%x %X", "%d/%m/%Y %H.%M"]
CMP = [("lt", operator.lt), ("le", operator.le), ("gt", operator.gt), ("ge", operator.ge), ("eq", operator.eq), ("ne", operator.ne)]


def twins(zone, u):
    r = T.render(u, zone)
    tz = pendulum.timezone(zone)
    p = DateTime(*T.fields(r), tzinfo=tz, fold=r.fold)
    n_same = D.datetime(*T.fields(r), tzinfo=tz, fold=r.fold)
    return p, n_same, r


@st.composite
def pair_case(draw):
    z1 = draw(S.zones())
    z2 = z1 if draw(st.integers(0, 2)) == 0 else draw(S.zones())
    u1 = draw(st.one_of(S.instant_near_transition(z1), S.instant_near_transition(z1), S.uniform_instant()))
    k = draw(st.integers(0, 3))
    if k == 0:
        u2 = u1
    elif k == 1:
        u2 = u1 + draw(S.uni(-7200 * US, 7200 * US))
    elif k == 2:
        u2 = draw(S.instant_near_transition(z2))
    else:
        u2 = draw(S.uniform_instant())
    return {"z1": z1, "z2": z2, "u1": u1, "u2": S.clamp_u(u2), "prov": draw(st.sampled_from(["ctor", "instance", "convert"]))}


def vt(x):
    """comparable value + type name"""
    if isinstance(x, D.timedelta):
        return ("td", D.timedelta.days.__get__(x), D.timedelta.seconds.__get__(x), D.timedelta.microseconds.__get__(x))
    return x


class DateTimeTwin(Sub):
    ambient = True
    name = "datetime_twin"
    n = {"quick": 12000, "thorough": 250000}
    shards = {"quick": 4, "thorough": 8}
    rule = "non-trivial: a value lies within a gap length of a transition (fold/offset selection matters), or the pair is in different zones, or year < 1000 (strftime padding)"

    def strategy(self, ctx):
        return pair_case()

    def check(self, case, ctx):
        z1, z2, u1, u2 = case["z1"], case["z2"], case["u1"], case["u2"]
        p1, n1, r1 = twins(z1, u1)
        p2, n2, r2 = twins(z2, u2)
        if case["prov"] == "instance":
            p1 = pendulum.instance(r1)
        elif case["prov"] == "convert":
            p1 = pendulum.instance(T.render(u1, "UTC")).in_timezone(z1)
        req(T.fields(p1) == T.fields(n1) and p1.utcoffset() == n1.utcoffset(), "harness: twin not aligned", p=p1.isoformat(), n=n1.isoformat())
        n1 = D.datetime(*T.fields(p1), tzinfo=p1.tzinfo, fold=p1.fold)      # identical tzinfo object and fold
        for m in UNARY:
            a, b = getattr(p1, m)(), getattr(n1, m)()
            req(a == b, f"{m}() differs from the native datetime with the same fields and tzinfo", got=str(a), native=str(b), value=p1.isoformat(), fold=p1.fold)
            zi = getattr(r1, m)() if m not in ("tzname",) else b
            if m not in ("timetz",):
                req(a == zi or m in ("dst",), f"{m}() differs from the native datetime with a ZoneInfo tzinfo", got=str(a), native=str(zi))
        req(type(p1.date()) is Date and type(p1.time()) is Time and type(p1.timetz()) is Time, "date()/time()/timetz() do not return pendulum types")
        for fmt in FMT:
            req(p1.strftime(fmt) == n1.strftime(fmt), f"strftime({fmt!r}) differs from native", got=p1.strftime(fmt), native=n1.strftime(fmt))
        req(format(p1, "%Y-%m-%d %H:%M") == format(n1, "%Y-%m-%d %H:%M"), "format(x, '%...') differs from native")
        req(p1 == n1 and n1 == p1 and not (p1 != n1) and hash(p1) == hash(n1), "value does not compare/hash equal to its native twin", value=p1.isoformat(), fold=p1.fold)
        req(p1.isoformat(" ") == str(p1), "str() is not isoformat(' ')")
        # binary operators by substitution
        for nm, op in CMP:
            for lbl, x in (("pendulum", p2), ("native", n2)):
                req(op(p1, x) == op(n1, x), f"p {nm} {lbl} differs from native twin {nm} {lbl}", a=p1.isoformat(), b=x.isoformat(), folds=[p1.fold, x.fold])
                req(op(x, p1) == op(x, n1), f"{lbl} {nm} p differs from {lbl} {nm} native twin", a=x.isoformat(), b=p1.isoformat())
        same_tz = p1.tzinfo is p2.tzinfo
        wall = (T.naive_us(p1) > T.naive_us(p2)) - (T.naive_us(p1) < T.naive_us(p2))
        inst = (u1 > u2) - (u1 < u2)
        if not same_tz or wall == inst:
            for nm, op in CMP[:4]:
                req(op(p1, p2) == op(u1, u2), f"ordering ({nm}) of two aware DateTimes is not the ordering of their instants", a=p1.isoformat(), b=p2.isoformat(), folds=[p1.fold, p2.fold])
            label = "ordered-by-instant"
        else:
            label = "wall-vs-instant-conflict"
        # subtraction of datetimes
        if not same_tz or p1.utcoffset() == p2.utcoffset():
            e = n1 - n2
            for lbl, (x, y) in (("p - p", (p1, p2)), ("p - native", (p1, n2)), ("native - p", (n1, p2))):
                g = x - y
                req(vt(g) == vt(e), f"{lbl} differs from the native subtraction", a=x.isoformat(), b=y.isoformat(), got=vt(g), native=vt(e))
        # astimezone
        a = p1.astimezone(T.zi(z2))
        b = n1.astimezone(T.zi(z2))
        req(type(a) is DateTime and T.fields(a) == T.fields(b) and a.utcoffset() == b.utcoffset() and a.fold == b.fold, "astimezone(ZoneInfo) differs from native", got=a.isoformat(), native=b.isoformat())
        a = p1.astimezone(pendulum.timezone(z2))
        req(type(a) is DateTime and T.fields(a) == T.fields(b) and a.utcoffset() == b.utcoffset(), "astimezone(Timezone) differs from native", got=a.isoformat(), native=b.isoformat())
        # replace / + - timedelta keep the pendulum type
        req(type(p1.replace(microsecond=1)) is DateTime, "replace() does not return a DateTime")
        td = D.timedelta(seconds=1)
        req(type(p1 + td) is DateTime and type(p1 - td) is DateTime and type(td + p1) is DateTime, "+/- timedelta does not return a DateTime")
        nt = T.near_transition(u1, z1) is not None or T.near_transition(u2, z2) is not None or z1 != z2 or p1.year < 1000
        return nt, label


def outcome(f):
    try:
        return ("value", f())
    except Exception as e:  # noqa: BLE001  - the native class's exception type is part of what a drop-in replacement reproduces
        return ("raises", type(e).__name__)


class NaiveTwin(Sub):
    ambient = True
    name = "naive_twin"
    backends = ("py",)
    n = {"quick": 5000, "thorough": 100000}
    shards = {"quick": 2, "thorough": 4}
    rule = ("naive DateTime against the native naive datetime with the same fields and fold, with the process's local zone (TZ + tzset) switched from case to case: "
            "accessors, timestamp(), astimezone() / astimezone(None) / astimezone(zone) (a naive value is read as local time), comparisons, hash, subtraction; "
            "non-trivial: the wall time is within a day of a transition of the local zone, or fold=1")

    def strategy(self, ctx):
        @st.composite
        def gen(draw):
            z = draw(st.sampled_from(["America/New_York", "Europe/Paris", "UTC", "Australia/Lord_Howe", "Asia/Kolkata", "America/Sao_Paulo"]))
            tr = [t for t in T.transitions(z) if 0 < t[0] < 2**31 - 10**6]
            if tr and draw(st.integers(0, 2)) > 0:
                t, a, b = tr[draw(st.integers(0, len(tr) - 1))]
                w = (t + max(a, b)) * US + draw(S.uni(-2 * 86400 * US, 2 * 86400 * US))
            else:
                w = draw(S.uni(86400 * 2 * US, (2**31 - 10**6) * US))
            return {"local": z, "w": w, "fold": draw(st.integers(0, 1)), "to": draw(S.zones()), "d": draw(st.sampled_from([0, 1, -1, 3600 * US, -86400 * US, 123456789]))}
        return gen()

    def check(self, case, ctx):
        import os
        import time as _time
        w = T.wall_from_us(case["w"])
        f = T.fields(w)
        p, n = pendulum.naive(*f, fold=case["fold"]), D.datetime(*f, fold=case["fold"])
        w2 = T.wall_from_us(case["w"] + case["d"])
        p2, n2 = pendulum.naive(*T.fields(w2)), D.datetime(*T.fields(w2))
        old = os.environ.get("TZ")
        os.environ["TZ"] = case["local"]
        _time.tzset()
        try:
            req(type(p) is DateTime and p.tzinfo is None and p.fold == n.fold, "harness: naive value not built as expected", got=repr(p))
            for m in UNARY:
                a, b = outcome(getattr(p, m)), outcome(getattr(n, m))
                req(a == b, f"naive {m}() differs from the native naive datetime (local zone {case['local']})", got=str(a), native=str(b), value=n.isoformat(), fold=n.fold)
            for nm, arg in (("astimezone()", ()), ("astimezone(None)", (None,)), ("astimezone(ZoneInfo)", (T.zi(case["to"]),)), ("astimezone(Timezone)", (pendulum.timezone(case["to"]),)),
                            ("astimezone(datetime.timezone.utc)", (D.timezone.utc,))):
                a, b = outcome(lambda: p.astimezone(*arg)), outcome(lambda: n.astimezone(*arg))
                req(a[0] == b[0], f"naive {nm}: pendulum {a[0]} where native {b[0]}", got=str(a[1]), native=str(b[1]), value=n.isoformat(), fold=n.fold)
                if a[0] == "value":
                    x, y = a[1], b[1]
                    req(type(x) is DateTime, f"naive {nm} does not return a DateTime", got=type(x).__name__)
                    req(x.tzinfo is not None and T.fields(x) == T.fields(y) and x.utcoffset() == y.utcoffset() and x.fold == y.fold and x.isoformat() == y.isoformat(),
                        f"naive {nm} differs from native (a naive value is read in the local zone {case['local']})", got=x.isoformat(), native=y.isoformat(), value=n.isoformat(), fold=n.fold)
                else:
                    req(a[1] == b[1], f"naive {nm} raises another exception type than native", got=a[1], native=b[1])
            for fmt in FMT:
                req(p.strftime(fmt) == n.strftime(fmt), f"naive strftime({fmt!r}) differs from native", got=p.strftime(fmt), native=n.strftime(fmt))
            req(p == n and n == p and hash(p) == hash(n), "naive value does not compare/hash equal to its native twin")
            for nm, op in CMP:
                for lbl, x in (("pendulum", p2), ("native", n2)):
                    req(op(p, x) == op(n, x) and op(x, p) == op(x, n), f"naive {nm} with a {lbl} operand differs from the native twin", a=n.isoformat(), b=n2.isoformat())
            e = n - n2
            for lbl, (x, y) in (("p - p", (p, p2)), ("p - native", (p, n2)), ("native - p", (n, p2))):
                req(vt(x - y) == vt(e), f"naive {lbl} differs from the native subtraction", got=vt(x - y), native=vt(e))
        finally:
            if old is None:
                os.environ.pop("TZ", None)
            else:
                os.environ["TZ"] = old
            _time.tzset()
        tr = T.transitions(case["local"])
        near = any(abs((t + a) * US - case["w"]) < 86400 * US for t, a, b in tr)
        return near or case["fold"] == 1, case["local"]


class Constructors(Sub):
    ambient = True
    name = "constructors_types"
    backends = ("py",)
    n = {"quick": 5000, "thorough": 100000}
    shards = {"quick": 2, "thorough": 4}
    rule = "class-level native constructors return pendulum types with the native value: fromtimestamp, utcfromtimestamp, fromordinal, combine, strptime, fromisoformat; non-trivial: non-UTC zone or sub-second value"

    def strategy(self, ctx):
        return st.fixed_dictionaries({"u": S.uniform_instant(), "zone": S.zones()})

    def check(self, case, ctx):
        u, z = case["u"], case["zone"]
        if not (0 <= u < 2**31 * US * 50):
            u = abs(u) % (2**31 * US)
        tz = pendulum.timezone(z)
        s = u // US
        a = DateTime.fromtimestamp(s, tz)
        b = D.datetime.fromtimestamp(s, T.zi(z))
        req(type(a) is DateTime and T.fields(a) == T.fields(b) and a.utcoffset() == b.utcoffset(), "DateTime.fromtimestamp differs from native", got=a.isoformat(), native=b.isoformat())
        a = DateTime.utcfromtimestamp(s)
        b = D.datetime.utcfromtimestamp(s)
        req(type(a) is DateTime and T.fields(a) == T.fields(b), "DateTime.utcfromtimestamp differs from native", got=a.isoformat())
        o = T.wall_from_us(u).toordinal()
        a = DateTime.fromordinal(o)
        req(type(a) is DateTime and T.fields(a) == T.fields(D.datetime.fromordinal(o)), "DateTime.fromordinal differs from native")
        w = T.wall_from_us(u)
        a = DateTime.combine(w.date(), w.time())
        req(type(a) is DateTime and T.fields(a) == T.fields(w), "DateTime.combine differs from native", got=a.isoformat())
        a = DateTime.strptime(w.strftime("%Y-%m-%d %H:%M:%S.%f"), "%Y-%m-%d %H:%M:%S.%f") if w.year >= 1000 else None
        if a is not None:
            req(type(a) is DateTime and T.fields(a) == T.fields(w), "DateTime.strptime differs from native", got=a.isoformat())
        da = Date.fromordinal(o)
        req(type(da) is Date and (da.year, da.month, da.day) == (w.year, w.month, w.day), "Date.fromordinal differs from native")
        da = Date.fromtimestamp(s)
        nb = D.date.fromtimestamp(s)
        req(type(da) is Date and (da.year, da.month, da.day) == (nb.year, nb.month, nb.day), "Date.fromtimestamp differs from native")
        return z != "UTC" or u % US != 0, "ctor"


class DateTimeOfDay(Sub):
    ambient = True
    name = "date_and_time"
    backends = ("py",)
    n = {"quick": 8000, "thorough": 150000}
    shards = {"quick": 2, "thorough": 4}
    rule = "Date and Time against native date/time twins: accessors, strftime, comparisons, hash, subtraction; non-trivial: year < 1000 or non-zero microsecond"

    def strategy(self, ctx):
        return st.fixed_dictionaries({"o1": st.integers(1, 3652059), "o2": st.integers(1, 3652059), "t1": S.uni(0, 86400 * US - 1), "t2": S.uni(0, 86400 * US - 1),
                                      "off": st.one_of(st.none(), S.fixed_offset_seconds())})

    def check(self, case, ctx):
        d1, d2 = D.date.fromordinal(case["o1"]), D.date.fromordinal(case["o2"])
        p1, p2 = pendulum.date(d1.year, d1.month, d1.day), pendulum.date(d2.year, d2.month, d2.day)
        for m in ("isoformat", "timetuple", "toordinal", "weekday", "isoweekday", "isocalendar", "ctime"):
            req(getattr(p1, m)() == getattr(d1, m)(), f"Date.{m}() differs from native", value=str(d1))
        for fmt in ("%Y-%m-%d %j %a %A %b %B %U %W %w %y %G %V %u", "%x", "%c"):
            req(p1.strftime(fmt) == d1.strftime(fmt), f"Date.strftime({fmt!r}) differs from native", got=p1.strftime(fmt), native=d1.strftime(fmt))
        req(p1 == d1 and d1 == p1 and hash(p1) == hash(d1) and str(p1) == str(d1), "Date does not compare/hash/str equal to its native twin")
        for nm, op in CMP:
            req(op(p1, p2) == op(d1, d2) and op(p1, d2) == op(d1, d2) and op(d1, p2) == op(d1, d2), f"Date comparison {nm} differs from native")
        g = p1 - p2
        req(vt(g) == vt(d1 - d2), "Date - Date differs from native", got=vt(g), native=vt(d1 - d2))
        req(vt(p1 - d2) == vt(d1 - d2), "Date - native date differs from native")
        req(type(p1.replace(day=1)) is Date and type(p1 + D.timedelta(days=1 if case["o1"] < 3652059 else -1)) is Date, "Date.replace/+timedelta do not return a Date")
        # Time
        def mk_t(us_, cls, tz):
            s, us = divmod(us_, US)
            return cls(s // 3600, s % 3600 // 60, s % 60, us, tzinfo=tz)
        tz = None if case["off"] is None else pendulum.tz.fixed_timezone(case["off"])
        t1, n1 = mk_t(case["t1"], Time, tz), mk_t(case["t1"], D.time, tz)
        t2, n2 = mk_t(case["t2"], Time, tz), mk_t(case["t2"], D.time, tz)
        for m in ("isoformat", "utcoffset", "tzname", "dst"):
            req(getattr(t1, m)() == getattr(n1, m)(), f"Time.{m}() differs from native", value=str(n1))
        for fmt in ("%H:%M:%S.%f %p %I", "%X", "%z %Z"):
            req(t1.strftime(fmt) == n1.strftime(fmt), f"Time.strftime({fmt!r}) differs from native")
        req(t1 == n1 and n1 == t1 and hash(t1) == hash(n1) and str(t1) == str(n1), "Time does not compare/hash/str equal to its native twin", value=str(n1))
        for nm, op in CMP:
            req(op(t1, t2) == op(n1, n2) and op(t1, n2) == op(n1, n2) and op(n1, t2) == op(n1, n2), f"Time comparison {nm} differs from native")
        req(type(t1.replace(second=1)) is Time, "Time.replace does not return a Time")
        return d1.year < 1000 or case["t1"] % US != 0, "date-time"


SUBS = [DateTimeTwin(), NaiveTwin(), Constructors(), DateTimeOfDay()]
