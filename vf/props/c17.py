"""C17 — parse() is total: a supported value or a ValueError/ParserError, nothing else."""
from __future__ import annotations

import datetime as D
import json
import os
import re
import subprocess
import sys
import traceback
import warnings
from fractions import Fraction

from hypothesis import strategies as st

import pendulum
import pendulum.parsing as PP
from pendulum import Date, DateTime, Duration, Interval, Time
from pendulum._pendulum import parse_iso8601 as rs_parse
from pendulum.parsing.iso8601 import parse_iso8601 as py_parse
from vf import env
from vf.core import VERIF, Sub, Violation, req

warnings.simplefilter("ignore")
US = 10**6
RULE = ("oracle: parse() returns DateTime/Date/Time/Duration/Interval or raises ValueError; anything else is bucketed by (exception type, innermost "
        "pendulum frame); both parsers agree whenever both accept; durations are re-derived with Python ints; strict mode rejects text outside the ISO alphabet")
ASSUMPTIONS = ["strict clause checked through a necessary condition: every ISO 8601 / RFC 3339 / 'YYYY-MM-DD HH:MM:SS' string is written in the alphabet "
               "[0-9:TZW/P+-., YMDHS] (plus the documented literal 'now'), so a value returned for text outside it is a violation",
               "a libFuzzer campaign is only approximately pinned by -seed/-runs; the saved input is the reproducible unit"]
OK_TYPES = (DateTime, Date, Time, Duration, Interval)
ALPHABET = set("0123456789:TZW/P+-., YMDHS")
SEEDS = ["2016-10-06T12:34:56.123456+05:30", "20161006T123456", "2016-10-06", "2012-W05-5", "2012W055", "2012-007", "2012007", "12:34:56.5", "T1234",
         "2016-10-06 12:34:56", "P1Y2M3DT4H5M6.5S", "P3W", "PT1.5H", "2007-03-01T13:00:00Z/2008-05-11T15:30:00Z", "2008-05-11T15:30:00Z/P1Y2M10DT2H30M",
         "P1Y2M10DT2H30M/2008-05-11T15:30:00Z", "2016-10", "20161001T14", "2016-10-06T12:34:56Z", "2016-10-06T12:34:56,5-0330", "2016-280T12", "2016-10-06/2016-10-09",
         "T12:34:56+02:00", "1583-01-01", "9999-12-31T23:59:59.999999", "2016-10-06 12:34:56.789", "12:34", "2016-10-06 12:34", "2008-05-11T15:30:00Z/PT0S", "P0D/2008-05-11T15:30:00Z", "PT0S",
         # boundary spellings that ISO 8601 itself allows (end-of-day 24:00, leap second): near-valid neighbours of supported forms
         "2016-10-06T24:00:00", "20161006T240000", "2016-10-06T24:00", "2016-12-31T23:59:60Z", "2016-02-29", "2016-366", "2015-W53-7", "2020W537", "2020-W53",
         # forms only one of the two ISO parsers reads itself: the other backend reaches its value through the common-format reader
         "20161006 12:34:56.1234567", "20161006 12:34", "2016-10-06 1:02:03.123456789", "1:02:03.1234567", "2016/10/06 12:34:56.987654321", "2016/10/06", "2016"]
SRC = os.path.realpath(os.path.join(env.REPO, "src", "pendulum"))
DUR_RE = re.compile(r"^P[0-9YMWDTHS.,]+\Z")


def _bucket(e):
    tb = traceback.extract_tb(e.__traceback__)
    where = None
    for fr in tb:
        if os.path.realpath(fr.filename).startswith(SRC):
            where = f"{os.path.relpath(os.path.realpath(fr.filename), SRC)}:{fr.name}"
    inner = tb[-1]
    if where is None or not os.path.realpath(inner.filename).startswith(SRC):
        where = (where or "?") + f" -> {os.path.basename(inner.filename)}:{inner.name}"
    return f"{type(e).__name__} @ {where}"


def norm(v):
    if isinstance(v, D.datetime):
        return ("dt", v.year, v.month, v.day, v.hour, v.minute, v.second, v.microsecond, None if v.tzinfo is None else v.utcoffset().total_seconds())
    if isinstance(v, D.date):
        return ("d", v.year, v.month, v.day)
    if isinstance(v, D.time):
        return ("t", v.hour, v.minute, v.second, v.microsecond, None if v.tzinfo is None else v.utcoffset().total_seconds())
    if isinstance(v, D.timedelta):
        return ("dur", v.years, v.months, (D.timedelta.days.__get__(v) * 86400 + D.timedelta.seconds.__get__(v)) * US + D.timedelta.microseconds.__get__(v)
                - (v.years * 365 + v.months * 30) * 86400 * US)
    if hasattr(v, "remaining_days") and hasattr(v, "weeks"):
        return ("dur", v.years, v.months, ((((v.weeks * 7 + v.days) * 24 + v.hours) * 60 + v.minutes) * 60 + v.seconds) * US + v.microseconds)
    return ("?", repr(v))


def exact_duration(s):
    """exact (years, months, rest_us Fraction) of a P... string written in order, else None"""
    m = re.match(r"^P(?:(\d+)(?:[.,](\d+))?W|(?:(\d+)Y)?(?:(\d+)M)?(?:(\d+)(?:[.,](\d+))?D)?(?:T(?:(\d+)(?:[.,](\d+))?H)?(?:(\d+)(?:[.,](\d+))?M)?(?:(\d+)(?:[.,](\d+))?S)?)?)\Z", s)
    if not m:
        return None
    g = m.groups()

    def val(i, f):
        return (Fraction(int(i)) if i else Fraction(0)) + (Fraction(int(f), 10 ** len(f)) if f else 0)

    if g[0] is not None:
        return 0, 0, val(g[0], g[1]) * 7 * 86400 * US
    rest = val(g[4], g[5]) * 86400 + val(g[6], g[7]) * 3600 + val(g[8], g[9]) * 60 + val(g[10], g[11])
    return int(g[2] or 0), int(g[3] or 0), rest * US


DATE_FORMS = [
    ("week", re.compile(r"^(\d{4})-?W(\d{2})(?:-?(\d))?(?=$|[T ])")),
    ("ordinal", re.compile(r"^(\d{4})-?(\d{3})(?=$|[T ])")),
    ("calendar", re.compile(r"^(\d{4})-(\d{2})-(\d{2})(?=$|[T ])")),
    ("calendar", re.compile(r"^(\d{4})(\d{2})(\d{2})(?=$|[T ])")),
]


def written_date_mismatch(s, r, day_first=False):
    """If s starts with a complete ISO week / ordinal / calendar date, the returned value must carry exactly those numbers (a week 54 or
    day 367 that comes back as a date of the following year is 'computed from silently wrapped-around numbers').  Returns a message or None."""
    if "/" in s or re.search(r"[T ]24", s):
        return None
    for form, rx in DATE_FORMS:
        m = rx.match(s)
        if not m:
            continue
        g = [int(x) if x is not None else None for x in m.groups()]
        d = D.date(r.year, r.month, r.day)
        if form == "week":
            got, want = tuple(d.isocalendar())[:3], (g[0], g[1], g[2] if g[2] is not None else 1)
        elif form == "ordinal":
            got, want = (d.year, d.timetuple().tm_yday), (g[0], g[1])
        else:
            # day_first=True is the documented way to read the last two fields as day, month
            # (an ISO-valid text is read as ISO; only text the ISO parser rejects is re-read with the day first)
            got, want = (d.year, d.month, d.day), tuple(g)
            if day_first and got == (g[0], g[2], g[1]):
                return None
        return None if got == want else f"{form} date written as {want} came back as {got}"
    return None


def looks_structured(s):
    return len(s) >= 4 and s[0] in "0123456789PT" and set(s) <= ALPHABET


def oracle(s, opts):
    """-> 'value' | 'rejected'; raises Violation (detail['bucket'] names the root-cause bucket)"""
    try:
        r = pendulum.parse(s, **opts)
        verdict = "value"
    except ValueError:
        r, verdict = None, "rejected"
    except BaseException as e:  # noqa: BLE001
        if isinstance(e, (KeyboardInterrupt, SystemExit)):
            raise
        b = _bucket(e)
        raise Violation(f"parse({s!r}, **{opts}) raised {type(e).__name__}: {str(e)[:80]}", bucket=b)
    if verdict == "value":
        if not isinstance(r, OK_TYPES):
            raise Violation(f"parse({s!r}) returned an unsupported type {type(r).__name__}", bucket="bad-type:" + type(r).__name__)
        if opts.get("strict", True) and s != "now" and not set(s) <= ALPHABET:
            raise Violation(f"strict parse() accepted text outside the ISO 8601 alphabet: {s!r} -> {r!r}", bucket="strict-accepts-foreign-text")
        if opts.get("strict", True) and isinstance(r, (Date, DateTime)):
            bad = written_date_mismatch(s, r, bool(opts.get("day_first")))
            if bad:
                raise Violation(f"parse({s!r}) returned a value computed from wrapped-around numbers: {bad}", bucket="date-value", got=str(r))
        if isinstance(r, Duration) and not isinstance(r, Interval):
            ex = exact_duration(s)
            if ex is not None:
                got = norm(r)
                if got[1:3] != ex[:2] or abs(Fraction(got[3]) - ex[2]) > Fraction(1, 2):
                    raise Violation(f"parse({s!r}) returned a duration that is not the written value (wrapped or mis-scaled numbers)",
                                    bucket="duration-value", got=got, exact=(ex[0], ex[1], float(ex[2])))
    # the two ISO parsers must agree whenever both accept
    res = {}
    for nm, p in (("python", py_parse), ("rust", rs_parse)):
        try:
            res[nm] = norm(p(s))
        except ValueError:
            res[nm] = None
        except BaseException as e:  # noqa: BLE001
            raise Violation(f"{nm} parse_iso8601({s!r}) raised {type(e).__name__}: {str(e)[:80]}", bucket=f"{nm}-parser:" + _bucket(e))
    if res["python"] is not None and res["rust"] is not None and res["python"] != res["rust"]:
        raise Violation(f"both parsers accept {s!r} but return different values", bucket="backends-disagree", python=res["python"], rust=res["rust"])
    # ... and so must parse() as a whole under either backend (PENDULUM_EXTENSIONS selects which ISO parser pendulum.parsing calls first; what it
    # rejects falls through to the common-format reader, so a string can reach its value by two different routes).  Asserted in strict mode, the
    # mode the sentence is about; 'now' and bare times depend on the clock and are left out
    if opts.get("strict", True) and set(s) <= ALPHABET:
        full = {}
        saved = PP.parse_iso8601
        try:
            for nm, p in (("python", py_parse), ("rust", rs_parse)):
                PP.parse_iso8601 = p
                try:
                    full[nm] = pendulum.parse(s, **opts)
                except ValueError:
                    full[nm] = None
                except BaseException as e:  # noqa: BLE001
                    if isinstance(e, (KeyboardInterrupt, SystemExit)):
                        raise
                    raise Violation(f"parse({s!r}, **{opts}) with the {nm} ISO parser raised {type(e).__name__}: {str(e)[:80]}", bucket=f"{nm}-pipeline:" + _bucket(e))
        finally:
            PP.parse_iso8601 = saved
        a, b = full["python"], full["rust"]
        if a is not None and b is not None:
            # a text without a date is completed with today's date (two clock readings): the time of day and offset are compared
            dl = isinstance(a, DateTime) and isinstance(b, DateTime) and bool(DATELESS.match(s))
            if type(a) is not type(b) or full_norm(a, dl) != full_norm(b, dl):
                raise Violation(f"parse({s!r}, **{opts}) returns different values under the two backends", bucket="pipeline-backends-disagree", python=repr(a), rust=repr(b))
    return verdict


DATELESS = re.compile(r"^(T|\d{1,2}:|\d{2}\Z|\d{6}([.,]\d+)?([Z+-][\d:]*)?\Z)")


def full_norm(v, dateless=False):
    if isinstance(v, Interval):
        return ("iv", full_norm(v.start), full_norm(v.end))
    if isinstance(v, DateTime):
        tz = v.tzinfo
        # the tzinfo's own offset field: utcoffset() itself raises for a written offset of 24 h or more, which parse() does not reject
        off = getattr(tz, "_offset", None) if isinstance(tz, pendulum.tz.timezone.FixedTimezone) else None if tz is None else str(tz)
        return ("dt",) + (() if dateless else (v.year, v.month, v.day)) + (v.hour, v.minute, v.second, v.microsecond, off, v.timezone_name)
    return norm(v)


# --------------------------------------------------------------------------- strategies
alpha = st.sampled_from(sorted(ALPHABET))
edit = st.one_of(
    st.tuples(st.just("sub"), st.integers(0, 80), alpha),
    st.tuples(st.just("ins"), st.integers(0, 80), alpha),
    st.tuples(st.just("del"), st.integers(0, 80), st.just("")),
    st.tuples(st.just("trunc"), st.integers(0, 80), st.just("")),
    st.tuples(st.just("cat"), st.integers(0, len(SEEDS) - 1), st.just("")),
    st.tuples(st.just("ins"), st.integers(0, 80), st.sampled_from(["٣", "２", "\x00", "é", "t", "z", "\n", "−", "a", "J", "|", ";", "_", "#", "*", "(", "[", "=", "~", "'", "\\", "\t", "\r"])),
    st.tuples(st.just("digits"), st.integers(0, 80), st.integers(10, 25).map(lambda n: "9" * n)),
    # grammar-aware: replace the k-th separator of the string (where parsers branch) by another separator or foreign punctuation
    st.tuples(st.just("sep"), st.integers(0, 12), st.sampled_from(list(".,:-+TZ/ W") + ["|", ";", "_", "#", "*", "=", "~", "'", "\\", "t", "z", "−", "\t"])),
)
options = st.fixed_dictionaries({}, optional={"exact": st.booleans(), "strict": st.booleans(), "tz": st.sampled_from(["Europe/Paris", "UTC", "America/New_York"]),
                                              "day_first": st.booleans(), "year_first": st.booleans()})


def apply_edits(s, edits):
    for kind, pos, ch in edits:
        if kind == "cat":
            s = s + SEEDS[pos]
            continue
        if kind == "trunc":
            s = s[: pos % (len(s) + 1)]
            continue
        if kind == "sep":
            idx = [i for i, c in enumerate(s) if not c.isdigit()]
            if idx:
                i = idx[pos % len(idx)]
                s = s[:i] + ch + s[i + 1:]
            continue
        if not s and kind in ("sub", "del"):
            continue
        i = pos % (len(s) + (1 if kind in ("ins", "digits") else 0)) if s or kind in ("ins", "digits") else 0
        if kind == "sub":
            s = s[:i] + ch + s[i + 1:]
        elif kind in ("ins", "digits"):
            s = s[:i] + ch + s[i:]
        elif kind == "del":
            s = s[:i] + s[i + 1:]
    return s


class Mutated(Sub):
    ambient = True
    name = "mutated_valid_forms"
    n = {"quick": 40000, "thorough": 1500000}
    shards = {"quick": 6, "thorough": 16}
    rule = "every seed form of C07/C13 with 0-2 edits (substitute, insert, delete, truncate, concatenate, foreign characters, long digit runs) x options; non-trivial: edited string within the ISO alphabet and not identical to a seed; distinct by (string, options)"

    def describe(self, case):
        return {"string": apply_edits(SEEDS[case["seed"]], [tuple(e) for e in case["edits"]]), "seed_form": SEEDS[case["seed"]], "options": case["opts"]}

    def strategy(self, ctx):
        return st.fixed_dictionaries({"seed": st.integers(0, len(SEEDS) - 1), "edits": st.lists(edit, min_size=0, max_size=2), "opts": options})

    def check(self, case, ctx):
        s = apply_edits(SEEDS[case["seed"]], [tuple(e) for e in case["edits"]])
        v = oracle(s, case["opts"])
        return (s not in SEEDS and set(s) <= ALPHABET), v


FOREIGN = ["|", ";", "_", "#", "*", "(", ")", "[", "]", "{", "}", "=", "~", "'", '"', "\\", "\t", "\r", "\n", "\x00", "t", "z", "w", "p", "a", "J", "é", "٣", "２", "−", "\u2009"]


class SingleEdits(Sub):
    ambient = True
    """every single-character edit of every seed form: the first ring of C17's quantifier, enumerated"""
    name = "single_edits_exhaustive"
    kind = "enum"
    case_timeout = 900.0
    n = {"quick": 0, "thorough": 0}
    shards = {"quick": 2, "thorough": 4}
    distinct_by_construction = True
    rule = ("every seed form x every position x {substitute, insert} x every character of the ISO alphabet and of a foreign set (ASCII punctuation, lower-case "
            "designators, control characters, non-ASCII digits), plus every single deletion and every truncation; options {} (thorough: also exact, non-strict, tz); "
            "non-trivial: the edited string stays inside the ISO alphabet")

    def describe(self, case):
        s0 = SEEDS[case["seed"]]
        pos, ch, kind = case["pos"], case["ch"], case["kind"]
        return {"seed_form": s0, "string": {"sub": s0[:pos] + ch + s0[pos + 1:], "ins": s0[:pos] + ch + s0[pos:], "del": s0[:pos] + s0[pos + 1:], "trunc": s0[:pos]}[kind]}

    def exhaustive(self, tier):
        return True

    def cases(self, ctx, shard, nshards):
        chars = sorted(ALPHABET) + FOREIGN
        k = 0
        for si, seed_s in enumerate(SEEDS):
            for pos in range(len(seed_s) + 1):
                for kind in ("sub", "ins", "del", "trunc"):
                    if kind in ("sub", "del") and pos >= len(seed_s):
                        continue
                    for ch in (chars if kind in ("sub", "ins") else [""]):
                        if kind == "sub" and ch == seed_s[pos]:
                            continue
                        k += 1
                        if k % nshards == shard:
                            yield {"seed": si, "kind": kind, "pos": pos, "ch": ch}

    def check(self, case, ctx):
        s0 = SEEDS[case["seed"]]
        pos, ch, kind = case["pos"], case["ch"], case["kind"]
        s = {"sub": s0[:pos] + ch + s0[pos + 1:], "ins": s0[:pos] + ch + s0[pos:], "del": s0[:pos] + s0[pos + 1:], "trunc": s0[:pos]}[kind]
        v = oracle(s, {})
        if ctx.thorough:
            for opts in ({"exact": True}, {"strict": False}, {"tz": "Europe/Paris"}):
                oracle(s, opts)
        return set(s) <= ALPHABET, v


class RandomStrings(Sub):
    ambient = True
    name = "random_strings"
    n = {"quick": 20000, "thorough": 600000}
    shards = {"quick": 3, "thorough": 8}
    rule = "random strings over the ISO alphabet, plus unicode (non-ASCII digits, NUL, letters); non-trivial: at least 4 characters, all in the ISO alphabet, starting with a digit, P or T"

    def strategy(self, ctx):
        return st.fixed_dictionaries({"s": st.one_of(st.text(alphabet=sorted(ALPHABET), max_size=30), st.text(max_size=16),
                                                     st.text(alphabet="0123456789-:T", min_size=4, max_size=25),
                                                     st.text(alphabet="0123456789PYMWDTHS.,", min_size=2, max_size=25).map(lambda x: "P" + x),
                                                     st.text(alphabet="0123456789٠١٢٣４５ \x00é/", max_size=14)), "opts": options})

    def check(self, case, ctx):
        v = oracle(case["s"], case["opts"])
        return looks_structured(case["s"]), v


MONTHS = ["Jan", "January", "feb", "Oct", "October", "Dec"]


@st.composite
def foreign_case(draw):
    y, m, d = draw(st.integers(1990, 2030)), draw(st.integers(1, 12)), draw(st.integers(1, 28))
    k = draw(st.integers(0, 7))
    mon = draw(st.sampled_from(MONTHS))
    s = [f"{d} {mon} {y}", f"{mon} {d}, {y}", f"{d:02d}.{m:02d}.{y}", f"{mon} {d} {y} 10:20PM", f"{y}-{m:02d}-{d:02d} 10:20 am", f"{d}th of {mon} {y}",
         f"Thu, {d} {mon} {y} 10:20:30 +0000", f"{y}.{m:02d}.{d:02d}"][k]
    return {"s": s}


class StrictRejects(Sub):
    ambient = True
    name = "strict_rejects"
    n = {"quick": 3000, "thorough": 50000}
    shards = {"quick": 1, "thorough": 4}
    rule = "date strings in free-text / dotted / AM-PM / RFC 2822 styles (accepted by the non-strict dateutil fallback) must be rejected by strict=True; every case non-trivial"

    def strategy(self, ctx):
        return foreign_case()

    def check(self, case, ctx):
        s = case["s"]
        for opts in ({}, {"strict": True}, {"strict": True, "exact": True}):
            try:
                r = pendulum.parse(s, **opts)
            except ValueError:
                continue
            raise Violation(f"strict parse() accepted {s!r}", got=repr(r), bucket="strict-accepts-foreign-text")
        v = oracle(s, {"strict": False})
        return True, "nonstrict-" + v


class Atheris(Sub):
    ambient = True
    """coverage-guided campaign (libFuzzer through atheris) on the instrumented pure-Python stack + black-box on the compiled one"""
    name = "atheris_campaign"
    kind = "custom"
    n = {"quick": 200000, "thorough": 4000000}      # runs per (backend, corpus kind), split over shards
    shards = {"quick": 2, "thorough": 8}
    rule = "libFuzzer runs of vf/fuzz_parse.py (-seed derived from VERIF_SEED); shard parity selects empty corpus vs. the 25 valid seed forms; non-trivial (counted, not de-duplicated): input of >= 4 chars in the ISO alphabet starting with a digit, P or T"

    def run(self, ctx, acc, task):
        shard, n = task["shard"], task["n"]
        work = os.path.join(VERIF, ".work", f"fuzz-{os.getpid()}")
        corpus = os.path.join(work, "corpus")
        os.makedirs(corpus, exist_ok=True)
        seeded = shard % 2 == 1
        if seeded:
            for i, s in enumerate(SEEDS):
                with open(os.path.join(corpus, f"seed{i}"), "wb") as f:
                    f.write(b"\x00" + s.encode())
        out = os.path.join(work, "result.json")
        seed = (ctx.seed * 7919 + shard * 104729 + (1 if ctx.backend == "rust" else 0)) % (2**31 - 1) + 1
        budget = 240 if ctx.tier == "quick" else 3600      # safety net only: a normal campaign needs ~10 s / ~5 min
        cmd = [sys.executable, "-m", "vf.fuzz_parse", out, ctx.backend, f"-runs={n}", f"-seed={seed}", "-max_len=64", "-len_control=0", "-print_final_stats=0",
               "-verbosity=0", f"-max_total_time={budget}", corpus]
        e = dict(os.environ)
        r = subprocess.run(cmd, cwd=VERIF, env=e, capture_output=True, text=True, timeout=3600 * 3)
        try:
            with open(out) as f:
                st_ = json.load(f)
        except Exception:
            raise env.HarnessError("atheris campaign produced no result file:\n" + (r.stderr or r.stdout)[-3000:])
        finally:
            import shutil
            shutil.rmtree(work, ignore_errors=True)
        if st_["execs"] < n and not st_["buckets"]:
            acc.labels["campaign-truncated-by-time-budget"] += 1
        if st_["execs"] < min(n, 1000) and not st_["buckets"]:
            raise env.HarnessError(f"atheris campaign stopped after {st_['execs']} executions:\n" + (r.stderr or r.stdout)[-2000:])
        acc.evals += st_["execs"]
        acc.nt_count += st_["nontrivial"]
        acc.labels["seeded-corpus" if seeded else "empty-corpus"] += st_["execs"]
        acc.labels["returned-value"] += st_["returned"]
        acc.labels["rejected"] += st_["rejected"]
        acc.samples.append({"case": {"campaign": {"seed": seed, "runs": n, "corpus": "seeds" if seeded else "empty", "backend": ctx.backend,
                                                  "executions": st_["execs"]}}, "label": "campaign", "nontrivial": True})
        for key, b in st_["buckets"].items():
            if key.startswith("HARNESS:"):
                raise env.HarnessError("fuzz target harness error: " + key)
            case = {"s": b["s"], "opts": b["opts"]}
            # confirm through the same oracle outside the fuzzer, then report one representative per bucket
            ok = acc.run_case(case, reraise=False)
            if not ok:
                acc.add_failure(*acc.last_fail)

    def check(self, case, ctx):
        oracle(case["s"], case["opts"])
        return True, "replayed"


SUBS = [Mutated(), SingleEdits(), RandomStrings(), StrictRejects(), Atheris()]
