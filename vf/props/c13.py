"""C13 — ISO 8601 durations and intervals parse to their exact value."""
from __future__ import annotations

import calendar
import datetime as D
import warnings
from fractions import Fraction

from hypothesis import strategies as st

import pendulum
from pendulum import DateTime, Duration, Interval
from pendulum._pendulum import parse_iso8601 as rs_parse
from pendulum.parsing.iso8601 import parse_iso8601 as py_parse
from vf import oracle_tz as T
from vf import strategies as S
from vf.core import Skip, Sub, Violation, req

warnings.simplefilter("ignore")
US = 10**6
RULE = "oracle: exact rational value (fractions.Fraction) of the components; parsed length must be within 0.5 us of it (either tie direction); both parsers and parse()"
ASSUMPTIONS = ["a component that does not fit the parser's number type may be rejected (ValueError) by that backend but must never be wrapped",
               "interval endpoints are generated in UTC / fixed offsets / without offset (UTC by default), where start.add(duration) is unambiguous"]
MAX_DAYS = 999999999
UNITS = [("Y", None), ("M", None), ("D", 86400), ("H", 3600), ("M", 60), ("S", 1)]


def raw_us(td):
    return (D.timedelta.days.__get__(td) * 86400 + D.timedelta.seconds.__get__(td)) * US + D.timedelta.microseconds.__get__(td)


def observe(kind, r):
    """-> (years, months, rest_us)"""
    if kind == "rust":
        return (r.years, r.months, ((((r.weeks * 7 + r.days) * 24 + r.hours) * 60 + r.minutes) * 60 + r.seconds) * US + r.microseconds)
    return (r.years, r.months, raw_us(r) - (r.years * 365 + r.months * 30) * 86400 * US)


number = st.one_of(st.integers(0, 60).map(str), st.integers(0, 9999).map(str), S.uni(0, 10**10 - 1).map(str),
                   st.sampled_from(["0", "00", "007", "4294967295", "4294967296", "8247146360", "999999999", "1000000000", "2147483648"]),
                   # a small number plus a power of two (or ten): what any fixed-width accumulator, of whatever width, would wrap back to the small number
                   st.builds(lambda k, r: str(2**k + r), st.one_of(st.sampled_from([32, 63, 64, 127, 128, 255, 256]), st.integers(31, 300)), st.integers(0, 60)),
                   st.builds(lambda k, r, m: str(m * 2**k + r), st.sampled_from([32, 64, 128]), st.integers(0, 4000), st.integers(1, 9)),
                   st.builds(lambda k, r: str(10**k + r), st.integers(10, 90), st.integers(0, 60)))
fraction = st.one_of(st.text("0123456789", min_size=1, max_size=9), st.sampled_from(["5", "25", "43", "0000005", "0000015", "9999995", "999999999", "0000001"]),
                     st.text("0123456789", min_size=10, max_size=30),
                     # exact half a microsecond (on S) followed by zeros and one late non-zero digit: only exact arithmetic rounds it up
                     st.builds(lambda pre, zeros, tail: pre + "0" * zeros + tail, st.sampled_from(["0000005", "0000015", "1234565", "9999995"]), st.integers(10, 40),
                               st.sampled_from(["1", "9", "", "0"])),
                     # the decimal expansion of (k + 1/2) microseconds expressed in weeks/days/hours/minutes/seconds, cut after n digits (so just below the tie), then
                     # as it is, or with a late digit appended, or rounded up in the last place: only exact arithmetic on all digits decides these
                     st.builds(lambda unit, k, n, how: (lambda base: base if how == 0 else base + "1" if how == 1 else str(int(base) + 1).zfill(n) if how == 2 else base + "000001")(
                         str((2 * k + 1) * 10**n // (2 * unit)).zfill(n)),
                         st.sampled_from([604800 * 10**6, 86400 * 10**6, 3600 * 10**6, 60 * 10**6, 10**6]), st.integers(0, 40), st.integers(18, 50), st.integers(0, 3)))


@st.composite
def duration_case(draw):
    if draw(st.integers(0, 6)) == 0:
        return {"week": True, "vals": [draw(number)], "frac": draw(st.one_of(st.just(""), fraction)), "fsep": draw(st.sampled_from(".,"))}
    present = [draw(st.booleans()) for _ in UNITS]
    if not any(present):
        present[draw(st.integers(0, 5))] = True
    vals = [draw(number) if p else None for p in present]
    last = max(i for i, p in enumerate(present) if p)
    frac = draw(st.one_of(st.just(""), fraction)) if last >= 2 else ""
    return {"week": False, "vals": vals, "frac": frac, "fsep": draw(st.sampled_from(".,"))}


def render_duration(c):
    """-> (string, years, months, exact rest in seconds as Fraction, max component)"""
    if c["week"]:
        n, fr = c["vals"][0], c["frac"]
        s = "P" + n + ((c["fsep"] + fr) if fr else "") + "W"
        rest = (Fraction(int(n)) + (Fraction(int(fr), 10 ** len(fr)) if fr else 0)) * 7 * 86400
        return s, 0, 0, rest, int(n)
    vals, fr = c["vals"], c["frac"]
    last = max(i for i, v in enumerate(vals) if v is not None)
    s = "P"
    rest = Fraction(0)
    for idx, (u, sec) in enumerate(UNITS):
        if idx == 3 and any(v is not None for v in vals[3:]):
            s += "T"
        if vals[idx] is None:
            continue
        s += vals[idx]
        v = Fraction(int(vals[idx]))
        if idx == last and fr:
            s += c["fsep"] + fr
            v += Fraction(int(fr), 10 ** len(fr))
        s += u
        if sec:
            rest += v * sec
    return s, int(vals[0] or 0), int(vals[1] or 0), rest, max(int(v) for v in vals if v is not None)


def fits(y, mo, rest):
    return Fraction(y * 365 + mo * 30) + rest / 86400 + Fraction(1, 2 * 86400 * US) < MAX_DAYS + 1


class Durations(Sub):
    ambient = True
    name = "durations"
    n = {"quick": 20000, "thorough": 800000}
    shards = {"quick": 3, "thorough": 8}
    rule = "PnYnMnDTnHnMnS (any subset) and PnW, integer components up to 10 digits, optional fraction (1-30 digits, '.' or ',') on the smallest component; non-trivial: a fraction is present, or >= 3 components, or a component >= 2^31"

    def describe(self, case):
        s, y, mo, rest, big = render_duration(case)
        return {"string": s, "years": y, "months": mo, "exact_rest_seconds": str(rest)}

    def strategy(self, ctx):
        return duration_case()

    def check(self, case, ctx):
        s, y, mo, rest, biggest = render_duration(case)
        exact_us = rest * US
        representable = fits(y, mo, rest)
        outcomes = {}
        for nm, kind, p in (("python parser", "py", py_parse), ("rust parser", "rust", rs_parse), ("parse()", "py", pendulum.parse)):
            try:
                r = p(s)
            except ValueError:
                outcomes[nm] = None
                if representable and (biggest < 2**31 or nm == "python parser" or (nm == "parse()" and ctx.backend == "py")):
                    # components below 2^31 (and their carries) always fit the compiled parser's 32-bit fields
                    raise Violation(f"{nm} rejects the well-formed duration {s!r}")
                continue
            if nm == "parse()":
                req(type(r) is Duration, f"parse({s!r}) does not return a Duration", got=type(r).__name__)
            got = observe(kind, r)
            outcomes[nm] = got
            req(representable or kind == "rust" and nm == "rust parser", f"{nm} returns a value for the unrepresentable {s!r}", got=got)
            req(got[:2] == (y, mo), f"{nm}: years/months of {s!r} wrong", got=got[:2], expected=(y, mo))
            req(abs(Fraction(got[2]) - exact_us) <= Fraction(1, 2), f"{nm}: length of {s!r} is not its exact value rounded to the microsecond",
                got_us=got[2], exact_us=float(exact_us), off_by_us=float(Fraction(got[2]) - exact_us))
        vals = [v for v in outcomes.values() if v is not None]
        req(len(set(vals)) <= 1, f"backends disagree on {s!r}", outcomes={k: v for k, v in outcomes.items()})
        ncomp = 1 if case["week"] else sum(v is not None for v in case["vals"])
        nt = bool(case["frac"]) or ncomp >= 3 or biggest >= 2**31
        return nt, ("week" if case["week"] else "ymdhms") + ("-frac" if case["frac"] else "") + ("-big" if biggest >= 2**31 else "")


@st.composite
def invalid_case(draw):
    k = draw(st.sampled_from(["order-date", "order-time", "frac-year", "frac-month", "repeated-T", "order-mixed", "repeated-unit", "weeks-mixed"]))
    # the numbers include ZERO (an order check that looks at the values instead of the designators is blind to it) and numbers whose sum wraps 32 bits
    a, b, c = (draw(st.integers(0, 99).map(str) | st.sampled_from(["0", "00", "4294967295", "2147483648"])) for _ in range(3))
    fr = draw(st.text("0123456789", min_size=1, max_size=4))
    sep = draw(st.sampled_from(".,"))
    if k == "order-date":
        s = draw(st.sampled_from([f"P{a}M{b}Y", f"P{a}D{b}M", f"P{a}D{b}Y", f"P{a}Y{b}D{c}M", f"P{a}M{b}D{c}Y", f"P{a}D{b}Y{c}M"]))
    elif k == "order-time":
        s = draw(st.sampled_from([f"PT{a}M{b}H", f"PT{a}S{b}M", f"PT{a}S{b}H", f"PT{a}H{b}S{c}M", f"P{a}DT{b}S{c}H", f"PT{a}M{b}S{c}H"]))
    elif k == "frac-year":
        s = draw(st.sampled_from([f"P{a}{sep}{fr}Y", f"P{a}{sep}{fr}Y{b}M", f"P{a}{sep}{fr}YT{b}H"]))
    elif k == "frac-month":
        s = draw(st.sampled_from([f"P{a}{sep}{fr}M", f"P{a}Y{b}{sep}{fr}M", f"P{a}{sep}{fr}MT{b}H", f"P{a}{sep}{fr}M{b}D"]))
    elif k == "repeated-T":
        s = draw(st.sampled_from([f"PT{a}HT{b}M", f"P{a}DTT{b}H", f"PT{a}HT{b}S"]))
    elif k == "repeated-unit":
        s = draw(st.sampled_from([f"P{a}D{b}D", f"P{a}Y{b}Y", f"P{a}M{b}M", f"PT{a}H{b}H", f"PT{a}M{b}M", f"PT{a}S{b}S", f"P{a}Y{b}M{c}M", f"P{a}DT{b}H{c}H", f"P{a}W{b}W"]))
    elif k == "weeks-mixed":
        s = draw(st.sampled_from([f"P{a}W{b}D", f"P{a}WT{b}H", f"P{a}Y{b}W", f"P{a}D{b}W", f"P{a}M{b}W", f"P{a}WT{b}S"]))
    else:
        s = draw(st.sampled_from([f"P{a}DT{b}H{c}D", f"PT{a}H{b}Y", f"PT{a}H{b}D", f"P{a}Y{b}H"]))
    return {"kind": k, "s": s}


class InvalidDurations(Sub):
    ambient = True
    name = "invalid_durations"
    n = {"quick": 3000, "thorough": 60000}
    shards = {"quick": 1, "thorough": 4}
    rule = "out-of-order or repeated designators (also with zero values and 32-bit-wrapping sums), weeks mixed with other units, fractional years/months, repeated T: ValueError from both parsers and parse(); every case non-trivial"

    def strategy(self, ctx):
        return invalid_case()

    def check(self, case, ctx):
        s = case["s"]
        for nm, p in (("python parser", py_parse), ("rust parser", rs_parse), ("parse()", pendulum.parse)):
            try:
                r = p(s)
            except ValueError:
                continue
            raise Violation(f"{nm} accepts the malformed duration {s!r}", got=repr(r))
        return True, case["kind"]


def model_shift(wall, sign, y, mo, rest_us):
    tm = wall.year * 12 + wall.month - 1 + sign * (y * 12 + mo)
    yy, mm = divmod(tm, 12)
    if not 1 <= yy <= 9999:
        raise OverflowError
    dd = min(wall.day, calendar.monthrange(yy, mm + 1)[1])
    return wall.replace(year=yy, month=mm + 1, day=dd) + sign * D.timedelta(microseconds=rest_us)


@st.composite
def interval_case(draw):
    y = draw(st.integers(1600, 2400))
    m = draw(st.integers(1, 12))
    d = draw(st.integers(1, calendar.monthrange(y, m)[1]) | st.sampled_from([28, 29, 30, 31]).map(lambda x: min(x, calendar.monthrange(y, m)[1])))
    wall = [y, m, d, draw(st.integers(0, 23)), draw(st.integers(0, 59)), draw(st.integers(0, 59)), draw(st.sampled_from([0, 0, 1, 500000]) | st.integers(0, 999999))]
    return {"wall": wall, "off": draw(st.one_of(st.none(), st.just(0), st.integers(-1439, 1439).map(lambda x: x * 60))), "z": draw(st.booleans()),
            "form": draw(st.sampled_from(["start/end", "start/duration", "duration/end", "date/date"])),
            "span": [draw(st.integers(-400, 400)), draw(st.integers(0, 86399)), draw(st.sampled_from([0, 1, 999999]))],
            "dur": {"y": draw(st.sampled_from([0, 0, 1]) | st.integers(0, 30)), "mo": draw(st.sampled_from([0, 0, 1, 12, 13]) | st.integers(0, 40)),
                    "d": draw(st.sampled_from([0, 1]) | st.integers(0, 400)), "h": draw(st.sampled_from([0, 1]) | st.integers(0, 100)),
                    "mi": draw(st.sampled_from([0]) | st.integers(0, 200)), "s": draw(st.sampled_from([0]) | st.integers(0, 5000)),
                    "frac": draw(st.sampled_from(["", "", "5", "25", "123456", "1234567"]))},
            "zero": draw(st.sampled_from(["PT0S", "P0D", "P0W", "P0Y0M0DT0H0M0S", "PT0M", "P0Y", "PT0,0000004S", "PT0.0S", "P0M0D"])),
            "off2": draw(st.one_of(st.none(), st.just(0), st.integers(-1439, 1439).map(lambda x: x * 60))),
            "tz": draw(st.sampled_from([None, None, "Europe/Paris", "America/New_York", "UTC"]))}


def iso(w: D.datetime, off, z):
    s = w.strftime("%Y-%m-%dT%H:%M:%S").replace(w.strftime("%Y"), f"{w.year:04d}", 1) + ((".%06d" % w.microsecond) if w.microsecond else "")
    if off is None:
        return s
    if off == 0 and z:
        return s + "Z"
    sg = "+" if off >= 0 else "-"
    return s + f"{sg}{abs(off) // 3600:02d}:{abs(off) % 3600 // 60:02d}"


def fields(x):
    return (x.year, x.month, x.day, x.hour, x.minute, x.second, x.microsecond)


class Intervals(Sub):
    ambient = True
    name = "intervals"
    n = {"quick": 10000, "thorough": 300000}
    shards = {"quick": 2, "thorough": 8}
    rule = "'start/end', 'start/duration', 'duration/end' (UTC, Z, fixed offsets, no offset) and 'date/date'; missing endpoint = calendar model of start.add(duration)/end.subtract(duration); non-trivial: a duration form, or a non-zero offset"

    def strategy(self, ctx):
        return interval_case()

    def check(self, case, ctx):
        wall = D.datetime(*case["wall"])
        off, z, form = case["off"], case["z"], case["form"]
        expoff = D.timedelta(seconds=off or 0)
        c = case["dur"]
        if form == "date/date":
            d2 = wall.date() + D.timedelta(days=case["span"][0])
            if not 1 <= d2.year <= 9999:
                raise Skip("out of range")
            s = f"{wall.year:04d}-{wall.month:02d}-{wall.day:02d}/{d2.year:04d}-{d2.month:02d}-{d2.day:02d}"
            r = pendulum.parse(s)
            req(isinstance(r, Interval) and type(r.start) is pendulum.Date and type(r.end) is pendulum.Date, f"parse({s!r}) is not an Interval of Dates", got=repr(r))
            req((r.start.year, r.start.month, r.start.day) == (wall.year, wall.month, wall.day) and (r.end.year, r.end.month, r.end.day) == (d2.year, d2.month, d2.day),
                f"parse({s!r}): endpoints wrong", got=repr(r))
            return False, form
        if form == "start/end":
            w2 = wall + D.timedelta(days=case["span"][0], seconds=case["span"][1], microseconds=case["span"][2])
            s = iso(wall, off, z) + "/" + iso(w2, off, z)
            r = pendulum.parse(s)
            req(isinstance(r, Interval) and type(r.start) is DateTime and type(r.end) is DateTime, f"parse({s!r}) is not an Interval of DateTimes", got=repr(r))
            req(fields(r.start) == fields(wall) and fields(r.end) == fields(w2) and r.start.utcoffset() == expoff and r.end.utcoffset() == expoff,
                f"parse({s!r}): endpoints are not the ones written", start=str(r.start), end=str(r.end))
            # each endpoint carries its own designator (or none): it is exactly what the same text denotes on its own, whatever the other endpoint says
            off2 = case.get("off2", off)
            tzopt = case.get("tz")
            kw = {"tz": tzopt} if tzopt else {}
            ta, tb = iso(wall, off, z), iso(w2, off2, not z)
            s2 = ta + "/" + tb
            r2 = pendulum.parse(s2, **kw)
            for nm, got, text, w_, o_ in (("start", r2.start, ta, wall, off), ("end", r2.end, tb, w2, off2)):
                alone = pendulum.parse(text, **kw)
                # (with tz= and no designator the written wall time may be skipped in that zone: then both are its normalisation, C02)
                req(fields(got) == fields(alone) and (o_ is None and bool(tzopt) or fields(got) == fields(w_)) and got.utcoffset() == alone.utcoffset()
                    and got.timezone_name == alone.timezone_name,
                    f"parse({s2!r}, {kw}): the {nm} is not what {text!r} denotes on its own", got=str(got), alone=str(alone))
                if o_ is not None:
                    req(got.utcoffset() == D.timedelta(seconds=o_), f"parse({s2!r}, {kw}): the {nm} does not carry its written offset", got=str(got))
            return bool(off) or off2 != off or bool(tzopt), form + (":mixed-designators" if (off is None) != (off2 is None) else "")
        ds = "P" + "".join(f"{c[k]}{u}" for k, u in (("y", "Y"), ("mo", "M"), ("d", "D")) if c[k])
        t = "".join(f"{c[k]}{u}" for k, u in (("h", "H"), ("mi", "M")) if c[k])
        if c["s"] or c["frac"]:
            t += f"{c['s']}" + (("." + c["frac"]) if c["frac"] else "") + "S"
        if t:
            ds += "T" + t
        rest = (Fraction(c["d"]) * 86400 + c["h"] * 3600 + c["mi"] * 60 + c["s"] + (Fraction(int(c["frac"]), 10 ** len(c["frac"])) if c["frac"] else 0)) * US
        if ds == "P":
            # every component is zero: a zero-length duration, spelled in one of the valid ways (count 0 is a boundary of its own)
            ds = case.get("zero", "PT0S")
            rest = Fraction(4, 10) if ds == "PT0,0000004S" else Fraction(0)
        lo, hi = (rest.numerator // rest.denominator), -((-rest.numerator) // rest.denominator)
        try:
            cands = {fields(model_shift(wall, 1 if form == "start/duration" else -1, c["y"], c["mo"], v)) for v in {lo, hi} if abs(Fraction(v) - rest) <= Fraction(1, 2)}
        except OverflowError:
            raise Skip("missing endpoint outside years 1..9999")
        s = iso(wall, off, z) + "/" + ds if form == "start/duration" else ds + "/" + iso(wall, off, z)
        r = pendulum.parse(s)
        req(isinstance(r, Interval) and type(r.start) is DateTime and type(r.end) is DateTime, f"parse({s!r}) is not an Interval of DateTimes", got=repr(r))
        given, computed = (r.start, r.end) if form == "start/duration" else (r.end, r.start)
        req(fields(given) == fields(wall) and given.utcoffset() == expoff, f"parse({s!r}): the written endpoint is wrong", got=str(given))
        req(fields(computed) in cands and computed.utcoffset() == expoff, f"parse({s!r}): missing endpoint is not start.add(duration) / end.subtract(duration)",
            got=str(computed), expected=sorted(cands))
        return True, form


class ZoneIntervals(Sub):
    ambient = True
    name = "intervals_in_dst_zones"
    n = {"quick": 8000, "thorough": 200000}
    shards = {"quick": 2, "thorough": 8}
    rule = ("'start/duration' and 'duration/end' without an offset, parsed with tz=<zone with DST> and the written endpoint within three days of an offset change; "
            "the missing endpoint is start + D / end - D for the Duration D the duration text denotes, which shifts by the components as written (36 hours "
            "are 36 elapsed hours, not a calendar day and 12 hours), computed by an independent model: with a year/month/day component everything moves the "
            "wall clock and is resolved on the post-transition side, a pure time duration is elapsed time; also compared with endpoint +/- parse(duration "
            "text); non-trivial: the two endpoints have different UTC offsets")

    def strategy(self, ctx):
        @st.composite
        def gen(draw):
            z = draw(st.sampled_from(["Europe/Paris", "America/New_York", "Australia/Lord_Howe", "America/Sao_Paulo", "Europe/London", "Asia/Tehran"]))
            tr = T.transitions(z)
            t = tr[draw(st.integers(0, len(tr) - 1))][0]
            u = S.clamp_u(t * US + draw(S.uni(-3 * 86400 * US, 3 * 86400 * US)))
            return {"zone": z, "u": u, "form": draw(st.sampled_from(["start/duration", "duration/end", "start/end"])), "w": draw(S.wall_near_transition(z)),
                    "span_s": draw(st.sampled_from([0, 1800, 3600, 7200, 86400]) | st.integers(0, 3 * 86400)),
                    "dur": {"y": draw(st.sampled_from([0, 0, 0, 1])), "mo": draw(st.sampled_from([0, 0, 0, 1, 6])), "d": draw(st.sampled_from([0, 0, 1, 2, 7])),
                            "h": draw(st.sampled_from([0, 1, 12, 23, 24, 25, 36, 47, 48, 72]) | st.integers(0, 100)), "mi": draw(st.sampled_from([0, 0, 30, 1440, 1500]) | st.integers(0, 200)),
                            "s": draw(st.sampled_from([0, 0, 86400, 90000]) | st.integers(0, 5000)), "frac": draw(st.sampled_from(["", "", "5", "123456"]))},
                    "weeks": draw(st.sampled_from([None, None, None, None, "1", "0.5", "0,5", "1.5", "0.1", "2.43", "0.142857", "3"]))}
        return gen()

    def check(self, case, ctx):
        z, c, form = case["zone"], case["dur"], case["form"]
        if form == "start/end":
            # two endpoints written without designator, parsed with tz=<zone>, the wall times anywhere around an offset change - also skipped or repeated
            # ones: each endpoint is what the same text denotes when parsed on its own (the interval must not resolve it another way)
            w1 = T.wall_from_us(S.clamp_u(case["w"]))
            w2 = w1 + D.timedelta(seconds=case["span_s"])
            if not (1900 <= w1.year <= 2100):
                raise Skip("outside 1900..2100")
            ta, tb = iso(w1, None, False), iso(w2, None, False)
            r = pendulum.parse(ta + "/" + tb, tz=z)
            req(isinstance(r, Interval), "not an Interval", got=repr(r))
            for nm, got, text in (("start", r.start, ta), ("end", r.end, tb)):
                alone = pendulum.parse(text, tz=z)
                req(T.us(got) == T.us(alone) and fields(got) == fields(alone) and got.utcoffset() == alone.utcoffset() and got.timezone_name == z,
                    f"parse({ta + '/' + tb!r}, tz={z!r}): the {nm} is not what {text!r} denotes on its own", got=str(got), alone=str(alone))
            k1, k2 = T.classify_wall(T.naive_us(w1), z)[0], T.classify_wall(T.naive_us(w2), z)[0]
            return k1 != "unique" or k2 != "unique", "start/end:" + k1 + "/" + k2
        loc = T.render(case["u"], z)
        wall = D.datetime(*T.fields(loc))
        kind, pre, _ = T.classify_wall(T.naive_us(wall), z)
        if kind != "unique" or not 1900 <= wall.year <= 2100:
            raise Skip("written endpoint is not a unique wall time of the zone / outside 1900..2100")
        ds = "P" + "".join(f"{c[k]}{u}" for k, u in (("y", "Y"), ("mo", "M"), ("d", "D")) if c[k])
        t = "".join(f"{c[k]}{u}" for k, u in (("h", "H"), ("mi", "M")) if c[k])
        if c["s"] or c["frac"]:
            t += f"{c['s']}" + (("." + c["frac"]) if c["frac"] else "") + "S"
        ds = ds + ("T" + t if t else "")
        if ds == "P":
            ds = "PT0S"
        frac_us = int(c["frac"].ljust(6, "0")) if c["frac"] else 0
        secs = (c["h"] * 60 + c["mi"]) * 60 + c["s"]
        days = c["d"]
        if case.get("weeks"):
            # PnW: a fraction of a week is whole days plus a rest of less than a day
            c = dict(c, y=0, mo=0)
            ds = "P" + case["weeks"] + "W"
            exact = Fraction(case["weeks"].replace(",", ".")) * 7 * 86400 * US
            total = round(exact)
            days, rest = divmod(total, 86400 * US)
            secs, frac_us = divmod(rest, US)
        sign = 1 if form == "start/duration" else -1
        if c["y"] or c["mo"] or days:
            # add()/subtract() with a calendar unit moves the wall clock by every unit and resolves the result on the post-transition side
            tm = wall.year * 12 + wall.month - 1 + sign * (c["y"] * 12 + c["mo"])
            yy, mm = divmod(tm, 12)
            dd = min(wall.day, calendar.monthrange(yy, mm + 1)[1])
            w2 = wall.replace(year=yy, month=mm + 1, day=dd) + sign * D.timedelta(days=days, seconds=secs, microseconds=frac_us)
            exp = T.expected_construct(T.naive_us(w2), z, 1)[1]
            if exp is None:
                raise Skip("model does not commit at a compound transition")
        else:
            exp = case["u"] + sign * (secs * US + frac_us)
        text = (iso(wall, None, False) + "/" + ds) if form == "start/duration" else (ds + "/" + iso(wall, None, False))
        r = pendulum.parse(text, tz=z)
        req(isinstance(r, Interval) and type(r.start) is DateTime and type(r.end) is DateTime, f"parse({text!r}, tz={z!r}) is not an Interval of DateTimes", got=repr(r))
        given, computed = (r.start, r.end) if form == "start/duration" else (r.end, r.start)
        req(T.us(given) == case["u"] and given.timezone_name == z, f"parse({text!r}, tz={z!r}): the written endpoint is wrong", got=str(given))
        req(T.us(computed) == exp and computed.timezone_name == z, f"parse({text!r}, tz={z!r}): missing endpoint is not start.add(duration) / end.subtract(duration)",
            got=str(computed), expected=T.render(exp, z).isoformat())
        # and it is what adding the parsed Duration itself gives
        dur = pendulum.parse(ds)
        alt = given + dur if sign > 0 else given - dur
        req(T.us(alt) == T.us(computed), f"parse({text!r}, tz={z!r}): missing endpoint differs from endpoint +/- parse({ds!r})", got=str(computed), via_duration=str(alt))
        return given.utcoffset() != computed.utcoffset(), form + (":time>=24h" if secs >= 86400 else "")


SUBS = [Durations(), InvalidDurations(), Intervals(), ZoneIntervals()]
