"""C09 — Duration normalisation is consistent with timedelta and with itself."""
from __future__ import annotations

import datetime as D
import itertools
import warnings

from hypothesis import strategies as st

import pendulum
from pendulum import Duration
from pendulum.duration import AbsoluteDuration
from vf import strategies as S
from vf.core import Skip, Sub, req

warnings.simplefilter("ignore")
US = 10**6
RULE = "oracle: native timedelta of the same arguments (year=365 d, month=30 d) and integer microsecond decomposition of the year/month-free part"
ASSUMPTIONS = ["component clauses asserted where pendulum's float bookkeeping is exact: |part without years/months| < 2^31 s and |total| < 2^32 s "
               "(the native-slot clause is asserted everywhere)"]


def raw(td):
    return (D.timedelta.days.__get__(td), D.timedelta.seconds.__get__(td), D.timedelta.microseconds.__get__(td))


def tdus(td):
    d, s, u = raw(td)
    return (d * 86400 + s) * US + u


def small(m):
    return st.one_of(st.sampled_from([0, 0, 1, -1]), st.integers(-m, m))


args_small = st.fixed_dictionaries({}, optional={
    "years": small(50), "months": small(100), "weeks": small(60), "days": small(400), "hours": small(100), "minutes": small(300),
    "seconds": small(100000), "milliseconds": small(5000), "microseconds": small(3 * 10**6)})
args_big = st.fixed_dictionaries({}, optional={
    "years": small(50), "months": small(100), "weeks": small(5000), "days": small(10**6), "hours": small(10**6), "minutes": small(10**6),
    "seconds": small(10**6), "milliseconds": small(10**6), "microseconds": small(10**7)})
args_cancel = st.builds(
    lambda d, u, s: {"days": d, "hours": -24 * d, "seconds": s, "microseconds": u, "milliseconds": -(u // 1000)},
    st.integers(-1000, 1000), st.integers(-10**6, 10**6), st.sampled_from([0, 1, -1]))
# years/months cancelled (exactly, or up to a small rest of either sign) by the other arguments: the native total is zero or tiny
# while years/months are not - a boundary of its own
args_ym_cancel = st.builds(
    lambda y, mo, split, eps_d, eps_us, how: dict(
        {"years": y, "months": mo},
        **({"days": -(365 * y + 30 * mo) + eps_d, "microseconds": eps_us} if how == 0 else
           {"weeks": -((365 * y + 30 * mo) // 7), "days": -((365 * y + 30 * mo) % 7) + eps_d, "microseconds": eps_us} if how == 1 else
           {"days": -(365 * y + 30 * mo) + split + eps_d, "hours": -24 * split, "seconds": eps_us, "milliseconds": -1000 * eps_us})),
    st.integers(-6, 6), st.integers(-80, 80), st.integers(-3, 3), st.sampled_from([0, 0, 1, -1]), st.sampled_from([0, 0, 1, -1, 500000]), st.integers(0, 2))
# the part without years/months exceeds timedelta's own range (10^9 days) while years/months of the other sign bring the total back inside it:
# an intermediate native timedelta of the day/time arguments alone would overflow although the Duration is representable
args_huge_cancel = st.builds(
    lambda sg, k, extra, us: {"years": -sg * ((k + extra) // 365 + 1), "days": sg * (10**9 + k), "microseconds": us},
    st.sampled_from([1, -1]), st.integers(0, 2000), st.integers(0, 400), st.sampled_from([0, 1, -1]))
args_huge = st.fixed_dictionaries({"days": st.integers(-999999000, 999999000)}, optional={"seconds": st.integers(-86399, 86399), "microseconds": st.integers(-999999, 999999)})

COMP = ("weeks", "remaining_days", "hours", "minutes", "remaining_seconds", "microseconds")
PERMS = list(itertools.permutations(range(6)))


class Normalise(Sub):
    ambient = True
    name = "normalise"
    backends = ("py",)
    n = {"quick": 40000, "thorough": 1000000}
    shards = {"quick": 8, "thorough": 16}
    rule = ("argument tuples incl. exact cancellations (years/months against days; day/time part beyond 10^9 days brought back by years) against exact integer arithmetic; lazy "
            "accessors also read in one of the 720 orders on a fresh equal object; non-trivial: mixed signs among the arguments, or a non-zero sub-second part with a negative "
            "total, or a carry across units")

    def strategy(self, ctx):
        return st.one_of(args_small, args_small, args_big, args_cancel, args_ym_cancel, args_huge, args_huge_cancel)

    def check(self, case, ctx):
        kw = case
        y, mo = kw.get("years", 0), kw.get("months", 0)
        rest_kw = {k: v for k, v in kw.items() if k not in ("years", "months")}
        UNIT = {"weeks": 7 * 86400 * US, "days": 86400 * US, "hours": 3600 * US, "minutes": 60 * US, "seconds": US, "milliseconds": 1000, "microseconds": 1}
        part = sum(v * UNIT[k] for k, v in rest_kw.items())        # exact integers: the day/time arguments alone may exceed timedelta's range
        total_us = part + (y * 365 + mo * 30) * 86400 * US
        try:
            nat = D.timedelta(days=total_us // (86400 * US), microseconds=total_us % (86400 * US))
        except OverflowError:
            raise Skip("native timedelta overflows")
        d = Duration(**kw)
        req(type(d) is Duration, "constructor does not return a Duration")
        req(raw(d) == raw(nat), "native slots differ from the native timedelta of the same arguments", got=raw(d), expected=raw(nat))
        req(d == nat and hash(d) == hash(nat), "Duration != native timedelta of the same arguments")
        req(d.years == y and d.months == mo, "years/months not reported as given", got=(d.years, d.months))
        req(d.days == raw(nat)[0], "days property differs from timedelta.days", got=d.days)
        pd = pendulum.duration(**kw)
        req(type(pd) is Duration and raw(pd) == raw(d), "pendulum.duration() differs from Duration()")
        # the same arguments passed POSITIONALLY, in timedelta's own order (days, seconds, microseconds, milliseconds, minutes, hours, weeks) followed by
        # years, months: a Duration is a drop-in timedelta, so positional calls written for timedelta must mean the same
        pos = tuple(kw.get(k, 0) for k in ("days", "seconds", "microseconds", "milliseconds", "minutes", "hours", "weeks", "years", "months"))
        for nm, f in (("Duration(*positional)", lambda: Duration(*pos)), ("pendulum.duration(*positional)", lambda: pendulum.duration(*pos)),
                      ("Duration(*timedelta_order_prefix)", lambda: Duration(*pos[:7], years=pos[7], months=pos[8]))):
            dp = f()
            req(raw(dp) == raw(d) and (dp.years, dp.months) == (y, mo), f"{nm} differs from the keyword construction with the same values", positional=pos, got=raw(dp),
                expected=raw(d))
        total = tdus(nat)
        signs = {(v > 0) - (v < 0) for v in kw.values()} - {0}
        nt = len(signs) > 1 or (part < 0 and part % US != 0) or any(abs(v) >= lim for k, v in rest_kw.items()
                                                                     for lim in [{"days": 7, "hours": 24, "minutes": 60, "seconds": 60, "milliseconds": 1000, "microseconds": US, "weeks": 10**9}[k]])
        if abs(part) >= 2**31 * US or abs(total) >= 2**32 * US:
            return nt, "slots-only"
        comps = tuple(getattr(d, c) for c in COMP)
        sgn = (part > 0) - (part < 0)
        req(all(((c > 0) - (c < 0)) in (0, sgn) for c in comps), "components do not all carry the sign of the year/month-free part", components=comps, part_us=part)
        req(abs(comps[1]) < 7 and abs(comps[2]) < 24 and abs(comps[3]) < 60 and abs(comps[4]) < 60 and abs(comps[5]) < US, "components out of canonical range", components=comps)
        tot = ((((comps[0] * 7 + comps[1]) * 24 + comps[2]) * 60 + comps[3]) * 60 + comps[4]) * US + comps[5]
        req(tot == part, "components do not sum to the year/month-free part", components=comps, sum_us=tot, part_us=part)
        req(all(type(c) is int for c in comps), "a component is not an int", components=[type(c).__name__ for c in comps])
        # the accessors are lazy and cache: a fresh equal object read in another order (one of the 720, chosen by the arguments) must report the same
        order = PERMS[(sum(abs(v) * (i + 3) for i, v in enumerate(kw.values())) + len(kw)) % len(PERMS)]
        fresh = Duration(**kw)
        seen = {COMP[i]: getattr(fresh, COMP[i]) for i in order}
        req(tuple(seen[c] for c in COMP) == comps and tuple(getattr(fresh, c) for c in COMP) == comps, "components depend on the order in which the accessors are read",
            order=[COMP[i] for i in order], first_read=seen, canonical_order=dict(zip(COMP, comps)))
        d2 = Duration(years=d.years, months=d.months, weeks=d.weeks, days=d.remaining_days, hours=d.hours, minutes=d.minutes,
                      seconds=d.remaining_seconds, microseconds=d.microseconds)
        req(raw(d2) == raw(d) and (d2.years, d2.months) + tuple(getattr(d2, c) for c in COMP) == (y, mo) + comps,
            "rebuilding a Duration from its own components does not reproduce it", original=repr(d), rebuilt=repr(d2))
        ts = d.total_seconds()
        req(ts == nat.total_seconds(), "total_seconds() differs from timedelta.total_seconds()", got=ts)
        for nm, div in (("minutes", 60), ("hours", 3600), ("days", 86400), ("weeks", 604800)):
            tv = getattr(d, "total_" + nm)()
            iv = getattr(d, "in_" + nm)()
            req(abs(tv - ts / div) <= 1e-9 * max(1.0, abs(tv)), f"total_{nm}() inconsistent with total_seconds()", got=tv)
            req(iv == int(tv) and type(iv) is int, f"in_{nm}() != int(total_{nm}())", got=iv, total=tv)
            q = abs(total) // (div * US)
            req(iv == (q if total >= 0 else -q), f"in_{nm}() is not the total truncated toward zero", got=iv, expected=q if total >= 0 else -q)
        req(d.in_seconds() == int(ts), "in_seconds() != int(total_seconds())")
        req(d.seconds == comps[2] * 3600 + comps[3] * 60 + comps[4], "seconds property != hours*3600+minutes*60+remaining_seconds", got=d.seconds)
        req(d.invert == (total < 0), "invert flag wrong", got=d.invert)
        return nt, "full"


class Absolute(Sub):
    ambient = True
    name = "absolute_duration"
    backends = ("py",)
    n = {"quick": 6000, "thorough": 100000}
    shards = {"quick": 2, "thorough": 4}
    rule = "AbsoluteDuration mirrors the components with absolute values; non-trivial: negative total"

    def strategy(self, ctx):
        return st.fixed_dictionaries({}, optional={"days": small(400), "hours": small(100), "minutes": small(300), "seconds": small(100000),
                                                   "microseconds": small(3 * 10**6), "weeks": small(60)})

    def check(self, case, ctx):
        kw = case
        nat = D.timedelta(**kw)
        a = AbsoluteDuration(**kw)
        part = abs(tdus(nat))
        comps = tuple(getattr(a, c) for c in COMP)
        req(all(c >= 0 for c in comps), "AbsoluteDuration has a negative component", components=comps)
        tot = ((((comps[0] * 7 + comps[1]) * 24 + comps[2]) * 60 + comps[3]) * 60 + comps[4]) * US + comps[5]
        req(tot == part, "AbsoluteDuration components do not sum to |total|", components=comps, expected_us=part)
        req(a.total_seconds() == abs(nat.total_seconds()), "AbsoluteDuration.total_seconds() is not the magnitude", got=a.total_seconds())
        req(a.invert == (tdus(nat) < 0), "AbsoluteDuration.invert wrong")
        return tdus(nat) < 0, "neg" if tdus(nat) < 0 else "pos"


SUBS = [Normalise(), Absolute()]
