"""C10 — Duration arithmetic agrees with timedelta arithmetic."""
from __future__ import annotations

import datetime as D
import operator
import warnings

from hypothesis import strategies as st

import pendulum
from pendulum import Duration
from vf import strategies as S
from vf.core import Skip, Sub, Violation, req

warnings.simplefilter("ignore")
US = 10**6
RULE = "differential: the same operator applied to native timedelta twins (days, seconds, microseconds slots); result slots must be equal exactly"
ASSUMPTIONS = ["CPython timedelta arithmetic is the reference", "Durations without years/months for the value clauses; years/months only for negation and integer scaling"]


def raw(td):
    return (D.timedelta.days.__get__(td), D.timedelta.seconds.__get__(td), D.timedelta.microseconds.__get__(td))


td_slots = st.one_of(
    st.builds(lambda u: [0, 0, u], st.sampled_from([0, 1, -1, 2, -2, 3, 5, 500000, -500000]) | st.integers(-10**7, 10**7)),
    st.builds(lambda d, s, u: [d, s, u], st.integers(-400, 400), st.integers(-90000, 90000), st.integers(-10**6, 10**6)),
    st.builds(lambda d, s, u: [d, s, u], st.integers(-90000, 90000), st.integers(0, 86399), st.integers(0, 999999)),
    st.builds(lambda s, u: [0, s, u], st.sampled_from([2**31, 2**32, 2**33, -(2**32), 2**32 - 1, 2**34]), st.sampled_from([0, 1, -1, 999999])),
)
# the ends of timedelta's (asymmetric) range: max = 999999999 days 23:59:59.999999, min = -999999999 days; an operation whose native
# result is representable must not fail on the way (a - b computed as a + (-b) overflows for b in the last day of the range)
td_limits = st.sampled_from([[999999999, 86399, 999999], [-999999999, 0, 0], [999999999, 0, 1], [999999999, 0, 0], [-999999999, 0, 1], [999999998, 86399, 999999],
                             [-999999998, 0, 0], [500000000, 0, 0], [-500000000, 0, 1]])


def mk_td(x):
    return D.timedelta(days=x[0], seconds=x[1], microseconds=x[2])


def as_dur(td):
    return Duration(days=td.days, seconds=td.seconds, microseconds=td.microseconds)


def same(tag, res, exp, ctx):
    if isinstance(exp, D.timedelta):
        req(isinstance(res, D.timedelta) and raw(res) == raw(exp), f"{tag}: result differs from the native timedelta operation",
            got=repr(res), got_slots=raw(res) if isinstance(res, D.timedelta) else None, expected=raw(exp), **ctx)
    elif isinstance(exp, tuple):
        req(res[0] == exp[0] and raw(res[1]) == raw(exp[1]), f"{tag}: divmod differs from the native operation", got=(res[0], raw(res[1])), expected=(exp[0], raw(exp[1])), **ctx)
    else:
        req(res == exp and type(res) is type(exp), f"{tag}: result differs from the native operation", got=res, expected=exp, **ctx)


BIN = [("add", operator.add), ("sub", operator.sub), ("floordiv", operator.floordiv), ("truediv", operator.truediv), ("mod", operator.mod), ("divmod", divmod)]


class Binary(Sub):
    ambient = True
    name = "duration_op_duration"
    backends = ("py",)
    n = {"quick": 16000, "thorough": 500000}
    shards = {"quick": 4, "thorough": 16}
    rule = ("pairs (Duration|timedelta, Duration|timedelta) in the three mixed arrangements, incl. the ends of timedelta's range (max, min and neighbours); non-trivial: operand types "
            "differ or the result crosses zero or an operand reaches 2^31 s")

    def strategy(self, ctx):
        return st.fixed_dictionaries({"a": td_slots | td_limits, "b": td_slots | td_limits})

    def check(self, case, ctx):
        a, b = mk_td(case["a"]), mk_td(case["b"])
        da, db = as_dur(a), as_dur(b)
        req(raw(da) == raw(a) and raw(db) == raw(b), "harness: twins differ")
        ctxd = {"a": raw(a), "b": raw(b)}
        for nm, fn in BIN:
            if nm in ("floordiv", "truediv", "mod", "divmod") and raw(b) == (0, 0, 0):
                for x, y in ((da, db), (da, b)):
                    try:
                        fn(x, y)
                    except ZeroDivisionError:
                        continue
                    raise Violation(f"{nm}: division by a zero duration does not raise ZeroDivisionError")
                continue
            try:
                e = fn(a, b)
            except OverflowError:
                continue
            for lbl, x, y in (("Duration,Duration", da, db), ("Duration,timedelta", da, b), ("timedelta,Duration", a, db)):
                r = fn(x, y)
                same(f"{nm}({lbl})", r, e, ctxd)
                same(f"{nm}({lbl}) (second evaluation on the same objects)", fn(x, y), e, ctxd)
                if lbl.startswith("Duration") or nm == "add":
                    rr = r[1] if nm == "divmod" else r
                    if nm in ("add", "sub", "mod", "divmod"):
                        req(type(rr) is Duration, f"{nm}({lbl}) does not return a Duration", got=type(rr).__name__)
                    elif nm == "floordiv":
                        req(type(rr) is int, f"{nm}({lbl}) does not return an int", got=type(rr).__name__)
                    else:
                        req(type(rr) is float, f"{nm}({lbl}) does not return a float", got=type(rr).__name__)
        for nm, fn in (("eq", operator.eq), ("ne", operator.ne), ("lt", operator.lt), ("le", operator.le), ("gt", operator.gt), ("ge", operator.ge)):
            e = fn(a, b)
            for x, y in ((da, db), (da, b), (a, db)):
                req(fn(x, y) == e, f"comparison {nm} disagrees with timedelta", **ctxd)
        req(hash(da) == hash(a) and da == a and a == da, "hash/== of a Duration disagree with the equal timedelta", **ctxd)
        for nm, fn in (("neg", operator.neg), ("abs", abs), ("pos", operator.pos)):
            try:
                e = fn(a)
            except OverflowError:
                try:
                    r = fn(da)
                except OverflowError:
                    continue
                raise Violation(f"{nm}: native timedelta overflows, Duration returns a value", got=repr(r), **ctxd)
            r = fn(da)
            same(nm, r, e, ctxd)
            r_again = fn(da)      # an operator is a pure function of its operands: evaluating it again on the same object gives the same
            same(nm + " (second evaluation on the same object)", r_again, e, ctxd)
            if nm == "neg":
                req(type(r) is Duration, "negation does not return a Duration", got=type(r).__name__)
        return True, "big" if abs(a.total_seconds()) >= 2**31 or abs(b.total_seconds()) >= 2**31 else "normal"


scalars_i = st.one_of(st.sampled_from([0, 1, -1, 2, -2, 3, -3, 7, 10, 1000]), st.integers(-1000, 1000))
scalars_f = st.one_of(st.sampled_from([0.5, -0.5, 1.5, 2.0, 0.1, -3.7, 2.5, 1e-3, 0.25, -1.0]), st.floats(-100, 100, allow_nan=False, allow_infinity=False))
tie_slots = st.builds(lambda k, sg: [0, 0, sg * (2 * k + 1)], st.integers(0, 10**6), st.sampled_from([1, -1]))


class Scalar(Sub):
    ambient = True
    name = "duration_op_scalar"
    backends = ("py",)
    n = {"quick": 16000, "thorough": 500000}
    shards = {"quick": 4, "thorough": 16}
    rule = "Duration x int/float for *, /, //; ties (odd microsecond counts halved, x*0.5, x*1.5) over-weighted; non-trivial: an exact rounding tie or a float scalar"

    def strategy(self, ctx):
        return st.fixed_dictionaries({"a": td_slots | tie_slots, "n": scalars_i, "f": scalars_f})

    def check(self, case, ctx):
        a = mk_td(case["a"])
        da = as_dur(a)
        n, f = case["n"], case["f"]
        ctxd = {"a": raw(a), "n": n, "f": f}
        ops = [("mul-int", lambda x: x * n), ("rmul-int", lambda x: n * x), ("mul-float", lambda x: x * f), ("rmul-float", lambda x: f * x)]
        if n != 0:
            ops += [("truediv-int", lambda x: x / n), ("floordiv-int", lambda x: x // n)]
        if f != 0:
            ops += [("truediv-float", lambda x: x / f)]
        for nm, fn in ops:
            try:
                e = fn(a)
            except OverflowError:
                continue
            r = fn(da)
            same(nm, r, e, ctxd)
            req(type(r) is Duration, f"{nm} does not return a Duration", got=type(r).__name__)
        us = (raw(a)[0] * 86400 + raw(a)[1]) * US + raw(a)[2]
        tie = (n != 0 and (2 * us) % n == 0 and us % n != 0 and abs(n) % 2 == 0) or (us % 2 == 1 and abs(f) in (0.5, 1.5, 2.5))
        return True, "tie" if tie else "plain"


class YearsMonths(Sub):
    ambient = True
    name = "years_months"
    backends = ("py",)
    n = {"quick": 8000, "thorough": 200000}
    shards = {"quick": 2, "thorough": 8}
    rule = "negation and integer scaling act component-wise on years/months and exactly on the native length; non-trivial: years and months of different sign"

    def strategy(self, ctx):
        cancel = st.builds(lambda y, mo, eps, us, n: {"y": y, "mo": mo, "a": [-(365 * y + 30 * mo) + eps, 0, us], "n": n},
                           st.integers(-5, 5), st.integers(-20, 20), st.sampled_from([0, 0, 1, -1]), st.sampled_from([0, 0, 1, -1]), scalars_i)
        return st.one_of(st.fixed_dictionaries({"y": st.integers(-5, 5), "mo": st.integers(-20, 20), "a": td_slots, "n": scalars_i}), cancel)

    def check(self, case, ctx):
        y, mo, n = case["y"], case["mo"], case["n"]
        a = mk_td(case["a"])
        dy = Duration(years=y, months=mo, days=a.days, seconds=a.seconds, microseconds=a.microseconds)
        nat = D.timedelta(days=365 * y + 30 * mo) + a
        ng = -dy
        req(type(ng) is Duration and (ng.years, ng.months) == (-y, -mo), "negation is not component-wise on years/months", got=(ng.years, ng.months))
        if abs(nat.total_seconds()) < 2**31 and abs(a.total_seconds()) < 2**31:
            req(raw(ng) == raw(-nat), "negation: native length is not the negated length", got=raw(ng), expected=raw(-nat))
        else:
            req(abs(((raw(ng)[0] - raw(-nat)[0]) * 86400 + raw(ng)[1] - raw(-nat)[1]) * US + raw(ng)[2] - raw(-nat)[2]) <= 64, "negation: native length off by more than float noise")
        sc = dy * n
        req(type(sc) is Duration and (sc.years, sc.months) == (y * n, mo * n), "integer scaling is not component-wise on years/months", got=(sc.years, sc.months))
        try:
            e = nat * n
            req(raw(sc) == raw(e), "integer scaling: native length differs from timedelta * int", got=raw(sc), expected=raw(e))
        except OverflowError:
            pass
        sc2 = n * dy
        req(raw(sc2) == raw(sc) and (sc2.years, sc2.months) == (sc.years, sc.months), "int * Duration differs from Duration * int")
        return (y > 0 > mo) or (y < 0 < mo), "mixed" if y * mo < 0 else "same-sign"


class IntervalDelegation(Sub):
    ambient = True
    name = "interval_ops"
    backends = ("py",)
    n = {"quick": 4000, "thorough": 80000}
    shards = {"quick": 2, "thorough": 4}
    rule = "Interval arithmetic delegates to its elapsed Duration: same results as timedelta arithmetic on the elapsed time; non-trivial: negative interval"

    def strategy(self, ctx):
        zone_u = S.zone_and_instant()
        return st.fixed_dictionaries({"u1": S.uni(0, 4 * 10**15), "span": st.one_of(S.uni(-10**14, 10**14), S.uni(-40 * 86400 * US, 40 * 86400 * US)), "b": td_slots,
                                      "n": scalars_i, "zu": st.one_of(st.none(), zone_u, zone_u)})

    def check(self, case, ctx):
        from vf import oracle_tz as T
        if case["zu"] is not None:
            # endpoints in a named zone, typically on different local days around a UTC-offset change: the elapsed time, not the
            # wall-clock breakdown, is what the arithmetic must use
            z, u1 = case["zu"]
            u2 = S.clamp_u(u1 + case["span"])
            s, e = pendulum.instance(T.render(u1, z)), pendulum.instance(T.render(u2, z))
            span = u2 - u1
        else:
            s = pendulum.datetime(1970, 1, 1).add(microseconds=case["u1"] % US).add(seconds=case["u1"] // US)
            e = s.add(microseconds=case["span"] % US).add(seconds=case["span"] // US)
            span = case["span"]
        iv = e - s
        a = D.timedelta(microseconds=span)
        case = dict(case, span=span)
        b = mk_td(case["b"])
        n = case["n"]
        ctxd = {"span_us": case["span"], "b": raw(b), "n": n}
        same("interval + timedelta", iv + b, a + b, ctxd)
        same("interval - timedelta", iv - b, a - b, ctxd)
        same("interval * int", iv * n, a * n, ctxd)
        req(type(iv + b) is Duration and type(iv * n) is Duration, "Interval arithmetic does not return a Duration")
        if n:
            same("interval / int", iv / n, a / n, ctxd)
            same("interval // int", iv // n, a // n, ctxd)
        if raw(b) != (0, 0, 0):
            same("interval // timedelta", iv // b, a // b, ctxd)
            same("interval % timedelta", iv % b, a % b, ctxd)
            same("divmod(interval, timedelta)", divmod(iv, b), divmod(a, b), ctxd)
            req(abs(iv / b - a / b) <= abs(a / b) * 1e-15, "interval / timedelta differs", got=iv / b, expected=a / b)
        req(iv == a and a == iv, "an Interval does not compare equal to the timedelta of its elapsed time", span_us=span)
        same(  "interval.as_duration()", iv.as_duration(), a, ctxd)
        return case["span"] < 0 or case["zu"] is not None, ("zone" if case["zu"] is not None else "utc") + (":neg" if case["span"] < 0 else ":pos")


SUBS = [Binary(), Scalar(), YearsMonths(), IntervalDelegation()]
