"""C04 — Calendar-unit arithmetic follows the wall clock with end-of-month clamping."""
from __future__ import annotations

import calendar
import datetime as D
import warnings

from dateutil.relativedelta import relativedelta
from hypothesis import strategies as st

import pendulum
from pendulum.duration import AbsoluteDuration
from pendulum import Date, DateTime
from vf import env
from vf import oracle_tz as T
from vf import strategies as S
from vf.core import Skip, Sub, Violation, req

warnings.simplefilter("ignore")
US = 10**6
RULE = ("oracle: reference shift model (total-months arithmetic, clamp to calendar.monthrange, native timedelta for the rest; "
        "cross-checked against dateutil.relativedelta) + C02 pre-image oracle (fold 1) for the landing wall time")
ASSUMPTIONS = ["zoneinfo/tzdata for the landing wall time", "dt +/- Duration relations asserted for canonical durations only "
               "(components of one sign, in canonical ranges): for denormalised constructor arguments 'd's components' is ambiguous"]

UNITS = ("years", "months", "weeks", "days", "hours", "minutes", "seconds", "microseconds")


def model(wall: D.datetime, a: dict) -> D.datetime:
    """reference: shift years+months, clamp the day, then add the rest on the calendar (naive)"""
    tm = wall.year * 12 + (wall.month - 1) + a.get("years", 0) * 12 + a.get("months", 0)
    y, m0 = divmod(tm, 12)
    m = m0 + 1
    if not 1 <= y <= 9999:
        raise OverflowError
    d = min(wall.day, calendar.monthrange(y, m)[1])
    w = wall.replace(year=y, month=m, day=d)
    r = w + D.timedelta(weeks=a.get("weeks", 0), days=a.get("days", 0), hours=a.get("hours", 0), minutes=a.get("minutes", 0),
                        seconds=a.get("seconds", 0), microseconds=a.get("microseconds", 0))
    # second, independent implementation
    try:
        r2 = wall + relativedelta(years=a.get("years", 0), months=a.get("months", 0), weeks=a.get("weeks", 0), days=a.get("days", 0),
                                  hours=a.get("hours", 0), minutes=a.get("minutes", 0), seconds=a.get("seconds", 0),
                                  microseconds=a.get("microseconds", 0))
    except (OverflowError, ValueError):
        raise OverflowError
    if r2 != r:
        raise env.HarnessError(f"reference models disagree: {wall} + {a}: {r} vs {r2}")
    return r


def neg(a):
    return {k: -v for k, v in a.items()}


amounts = st.one_of(
    st.fixed_dictionaries({}, optional={
        "years": st.integers(-30, 30), "months": st.integers(-40, 40), "weeks": st.integers(-60, 60), "days": st.integers(-400, 400),
        "hours": st.integers(-100, 100), "minutes": st.integers(-3000, 3000), "seconds": st.integers(-100000, 100000),
        "microseconds": st.integers(-3 * 10**6, 3 * 10**6)}),
    st.fixed_dictionaries({"months": st.sampled_from([-25, -13, -12, -11, -1, 1, 11, 12, 13, 25])},
                          optional={"years": st.integers(-3, 3), "days": st.integers(-45, 45), "hours": st.integers(-30, 30)}),
    st.fixed_dictionaries({"days": st.integers(-40, 40)}, optional={"hours": st.integers(-30, 30), "minutes": st.integers(-90, 90)}),
    # calendar units that cancel each other exactly (weeks vs days, years vs months): the call still "involves" calendar units, so the
    # time units must be applied on the wall clock, not as elapsed time
    st.builds(lambda k, h, mi, how: dict({"weeks": k, "days": -7 * k} if how == 0 else {"years": k, "months": -12 * k} if how == 1 else {"months": k, "years": 0, "days": 0, "weeks": 0},
                                         hours=h, minutes=mi),
              st.integers(-3, 3).filter(lambda k: k != 0), st.integers(-30, 30), st.sampled_from([0, 0, 30, -45]), st.integers(0, 1)),
)


def has_var(a):
    return any(a.get(k) for k in ("years", "months", "weeks", "days"))


@st.composite
def start_wall(draw, zone):
    """wall value biased to month ends, leap days and transition days"""
    k = draw(st.integers(0, 4))
    if k == 0 and zone and T.transitions(zone):
        return draw(S.wall_near_transition(zone))
    if k == 4:
        return S.clamp_u(draw(S.calendar_edge_wall()))
    y = draw(st.one_of(st.sampled_from([4, 100, 400, 1583, 1900, 2000, 2023, 2024, 9996]), st.integers(4, 9996)))
    m = draw(st.integers(1, 12))
    dim = calendar.monthrange(y, m)[1]
    d = draw(st.one_of(st.sampled_from([1, 2, 27, 28, 29, 30, 31]), st.integers(1, 31)))
    d = min(d, dim)
    tod = draw(st.one_of(st.just(0), S.uni(0, 86400 * US - 1), st.sampled_from([86400 * US - 1, 3600 * US, 2 * 3600 * US + 1800 * US])))
    return T.naive_us(D.datetime(y, m, d)) + tod


@st.composite
def dt_case(draw):
    z = draw(st.one_of(st.none(), S.zones(), S.zones()))
    w = draw(start_wall(z))
    a = draw(amounts)
    if z and draw(st.integers(0, 3)) == 0 and T.transitions(z):
        # aim the landing wall time into/around a gap or overlap with whole days/months in between
        target = draw(S.wall_near_transition(z))
        dd = draw(st.sampled_from([1, -1, 7, 28, 30, 31, 365, -30]))
        w = S.clamp_u(target - dd * 86400 * US)
        a = {"days": dd}
    elif z and draw(st.integers(0, 4)) == 0 and T.transitions(z):
        # the wall time reached after the years/months part alone is skipped or repeated (or next to such a stretch), and weeks/days/time units
        # follow: the shift is one calendar computation from the start, nothing in between is a value of its own to be normalised
        target = draw(S.wall_near_transition(z))
        tw = T.wall_from_us(target)
        if tw.day <= 28 and 30 < tw.year < 9960:
            ym = {"months": draw(st.integers(-25, 25).filter(lambda k: k != 0)), "years": draw(st.sampled_from([0, 0, 1, -1, 3]))}
            # day <= 28: no clamping, so start + ym is the target wall time exactly ... or start - ym is (the path subtract() takes)
            w = T.naive_us(model(tw, neg(ym) if draw(st.booleans()) else ym))
            a = dict(ym)
            a.update(draw(st.fixed_dictionaries({}, optional={"weeks": st.integers(-3, 3), "days": st.integers(-40, 40), "hours": st.integers(-30, 30),
                                                               "minutes": st.integers(-90, 90), "microseconds": st.sampled_from([0, 1, -1, 5])})))
            if not (a.get("weeks") or a.get("days")):
                a["days"] = draw(st.sampled_from([1, -1, 3, -5, 7]))
    return {"zone": z, "w": w, "amt": a, "prov": draw(st.sampled_from(["construct", "convert", "convert-add"]))}


def expect_value(tag, got, zone, mw, start):
    """got must equal the model wall value mw normalised in zone by the construction rules (fold 1)"""
    req(isinstance(got, DateTime), f"{tag}: result is not a DateTime", got=type(got).__name__)
    w = T.naive_us(mw)
    if zone is None:
        req(got.tzinfo is None and T.naive_us(got) == w, f"{tag}: naive result differs from the calendar model",
            start=start, got=got.isoformat(), expected=mw.isoformat())
        return "naive"
    req(got.timezone_name == zone, f"{tag}: timezone not kept", got=got.timezone_name)
    kind, eu = T.expected_construct(w, zone, 1)
    back = T.render(T.us(got), zone)
    req(T.fields(back) == T.fields(got) and back.utcoffset() == got.utcoffset(), f"{tag}: result is not a valid local time", got=got.isoformat())
    if eu is None:
        return "compound"
    exp = T.render(eu, zone)
    req(T.us(got) == eu and T.fields(got) == T.fields(exp) and got.utcoffset() == exp.utcoffset(),
        f"{tag}: result differs from the calendar model (landing wall time {kind})",
        start=start, got=got.isoformat(), expected=exp.isoformat(), model_wall=mw.isoformat())
    return kind


def build_start(wall, z, u, prov):
    """the same start value obtained in different ways: the result of calendar arithmetic must not depend on the provenance
    (constructed values carry fold=1, converted ones fold=0)"""
    if prov == "construct":
        return pendulum.datetime(*T.fields(wall), tz=z)
    if prov == "convert":
        return pendulum.instance(T.render(u, "UTC")).in_timezone(z)
    return pendulum.instance(T.render(u - 3600 * US, z)).add(hours=1)


def sig(r):
    return (T.fields(r), r.utcoffset(), r.timezone_name, type(r).__name__)


class DateTimeArith(Sub):
    ambient = True
    name = "datetime_add_subtract"
    n = {"quick": 14000, "thorough": 300000}
    shards = {"quick": 4, "thorough": 8}
    rule = ("non-trivial: day clamped, or year/month boundary crossed by the month shift, or landing wall time not unique, "
            "or a transition between start and result")

    def describe(self, case):
        return {"start_wall": T.wall_from_us(case["w"]).isoformat(), "zone": case["zone"], "amount": case["amt"], "start_built_by": case.get("prov")}

    def strategy(self, ctx):
        return dt_case()

    def check(self, case, ctx):
        z, w, a = case["zone"], case["w"], case["amt"]
        if not has_var(a):
            raise Skip("no calendar unit in the amount (C03 territory)")
        wall = T.wall_from_us(w)
        if z is not None:
            k0, eu0 = T.expected_construct(w, z, 1)
            if k0 != "unique":
                raise Skip("start wall time not unique")
            x = build_start(wall, z, eu0, case.get("prov", "construct"))
        else:
            x = pendulum.naive(*T.fields(wall))
        req(T.fields(x) == T.fields(wall), "harness: start not built as given", got=x.isoformat())
        try:
            mw = model(wall, a)
            mwn = model(wall, neg(a))
        except OverflowError:
            raise Skip("model leaves years 1..9999")
        if not (3 < mw.year < 9997 and 3 < mwn.year < 9997):
            raise Skip("model leaves years 4..9996")
        start = x.isoformat()
        kind = expect_value("add()", x.add(**a), z, mw, start)
        expect_value("subtract()", x.subtract(**a), z, mwn, start)
        expect_value("add(negated)", x.add(**neg(a)), z, mwn, start)
        expect_value("subtract(negated)", x.subtract(**neg(a)), z, mw, start)
        # years+months shift
        tm = wall.year * 12 + wall.month - 1 + a.get("years", 0) * 12 + a.get("months", 0)
        y2, m2 = divmod(tm, 12)
        clamped = wall.day > calendar.monthrange(y2, m2 + 1)[1]
        crossed = (a.get("months", 0) != 0 and y2 != wall.year + a.get("years", 0))
        nt = clamped or crossed or kind not in ("unique", "naive")
        if z is not None and not nt and eu0 is not None:
            ku, eu = T.expected_construct(T.naive_us(mw), z, 1)
            nt = eu is not None and T.transition_between(eu0, eu, z)
        return nt, ("clamped" if clamped else "unclamped") + ":" + kind


def canonical(draw_sign, y, mo, w, d, h, mi, s, us):
    m = draw_sign
    return {"years": y, "months": mo, "weeks": w * m, "days": d * m, "hours": h * m, "minutes": mi * m, "seconds": s * m,
            "microseconds": us * m}


@st.composite
def dur_case(draw):
    z = draw(st.one_of(st.none(), S.zones(), S.zones()))
    w = draw(start_wall(z))
    if draw(st.integers(0, 2)) > 0:
        a = canonical(draw(st.sampled_from([1, -1])), draw(st.integers(-20, 20)), draw(st.integers(-30, 30)), draw(st.integers(0, 30)),
                      draw(st.integers(0, 6)), draw(st.integers(0, 23)), draw(st.integers(0, 59)), draw(st.integers(0, 59)),
                      draw(st.sampled_from([0, 0, 1, 999999]) | st.integers(0, 999999)))
        a = {k: v for k, v in a.items() if v != 0 or draw(st.booleans())}
        canon = True
    else:
        a = draw(amounts)
        canon = False
    return {"zone": z, "w": w, "amt": a, "canonical": canon, "prov": draw(st.sampled_from(["construct", "convert", "convert-add"]))}


def outcome_str(f):
    try:
        return f().isoformat()
    except Exception as e:  # noqa: BLE001 - only used to describe a failure
        return type(e).__name__


class DurationOps(Sub):
    ambient = True
    name = "duration_operators"
    n = {"quick": 10000, "thorough": 200000}
    shards = {"quick": 3, "thorough": 8}
    rule = ("dt + d == add(**args); canonical d: dt - d == dt + (-d) == subtract(**components). non-trivial: a UTC-offset "
            "transition lies within 2 days of start or result, or the day is clamped")

    def strategy(self, ctx):
        return dur_case()

    def check(self, case, ctx):
        z, w, a = case["zone"], case["w"], case["amt"]
        wall = T.wall_from_us(w)
        if z is not None:
            k0_, eu0_ = T.expected_construct(w, z, 1)
            if k0_ != "unique":
                raise Skip("start wall time not unique")
            x = build_start(wall, z, eu0_, case.get("prov", "construct"))
        else:
            x = pendulum.naive(*T.fields(wall))
        try:
            mw = model(wall, a)
            mwn = model(wall, neg(a))
        except OverflowError:
            raise Skip("model leaves years 1..9999")
        if not (3 < mw.year < 9997 and 3 < mwn.year < 9997):
            raise Skip("model leaves years 4..9996")
        d = pendulum.duration(**a)
        r_add = x.add(**a)
        r_sub = x.subtract(**a)
        r1 = x + d
        req(sig(r1) == sig(r_add), "dt + d differs from dt.add() with the same arguments", got=r1.isoformat(), add=r_add.isoformat(), amt=a)
        req(sig(d + x) == sig(r_add), "d + dt differs from dt.add() with the same arguments")
        if has_var(a):
            expect_value("dt + d", r1, z, mw, x.isoformat())
        # the same Duration spelled with the constructor's milliseconds argument (the sub-second part split into ms + us)
        us_ = a.get("microseconds", 0)
        d_ms = pendulum.duration(**dict({k: v for k, v in a.items() if k != "microseconds"}, milliseconds=us_ // 1000, microseconds=us_ % 1000))
        req(d_ms == d and (d_ms.years, d_ms.months) == (d.years, d.months), "harness: milliseconds spelling is another duration")
        req(sig(x + d_ms) == sig(r_add) and sig(d_ms + x) == sig(r_add), "dt + d differs from dt.add() when d was built with milliseconds=", got=(x + d_ms).isoformat(),
            add=r_add.isoformat(), amt=a)
        req(sig(x - d_ms) == sig(x - d), "dt - d depends on whether d was built with milliseconds= or microseconds=", ms=(x - d_ms).isoformat(), us=(x - d).isoformat(), amt=a)
        # an AbsoluteDuration (what Time.diff() and abs-type differences hand back) is a Duration too: it shifts by its own (absolute) components
        ad = AbsoluteDuration(**a)
        compa = {"years": ad.years, "months": ad.months, "weeks": ad.weeks, "days": ad.remaining_days, "hours": ad.hours, "minutes": ad.minutes,
                 "seconds": ad.remaining_seconds, "microseconds": ad.microseconds}
        try:
            ea, es = x.add(**compa), x.subtract(**compa)
        except (OverflowError, ValueError):
            ea = es = None
        if ea is not None and 3 < ea.year < 9997 and 3 < es.year < 9997:
            req(sig(x + ad) == sig(ea) and sig(ad + x) == sig(ea), "dt + AbsoluteDuration differs from dt.add() with its components", got=outcome_str(lambda: x + ad), add=ea.isoformat(), amt=a)
            req(sig(x - ad) == sig(es), "dt - AbsoluteDuration differs from dt.subtract() with its components", got=outcome_str(lambda: x - ad), subtract=es.isoformat(), amt=a)
        lab = "denormalised"
        if case["canonical"]:
            lab = "canonical"
            comp = {"years": d.years, "months": d.months, "weeks": d.weeks, "days": d.remaining_days, "hours": d.hours,
                    "minutes": d.minutes, "seconds": d.remaining_seconds, "microseconds": d.microseconds}
            req({k: v for k, v in comp.items() if v} == {k: v for k, v in a.items() if v}, "harness: duration not canonical", comp=comp, amt=a)
            r2 = x - d
            r3 = x + (-d)
            r4 = x.subtract(**comp)
            req(sig(r2) == sig(r4), "dt - d differs from dt.subtract() with d's components", minus=r2.isoformat(), subtract=r4.isoformat(), amt=a)
            req(sig(r2) == sig(r3), "dt - d differs from dt + (-d)", minus=r2.isoformat(), plus_neg=r3.isoformat(), amt=a)
            req(sig(r4) == sig(r_sub), "subtract(**components) differs from subtract(**args)")
            if has_var(a):
                expect_value("dt - d", r2, z, mwn, x.isoformat())
        nt = False
        if z is not None:
            for v in (T.us(x), T.us(r_add), T.us(r_sub)):
                if T.near_transition(v, z, 2 * 86400) is not None:
                    nt = True
        tm = wall.year * 12 + wall.month - 1 + a.get("years", 0) * 12 + a.get("months", 0)
        y2, m2 = divmod(tm, 12)
        nt = nt or wall.day > calendar.monthrange(y2, m2 + 1)[1]
        return nt, lab


class DateArith(Sub):
    ambient = True
    name = "date_arith"
    backends = ("py",)
    n = {"quick": 8000, "thorough": 150000}
    shards = {"quick": 2, "thorough": 4}
    rule = "Date add/subtract/+/- Duration against the same model; time units rejected; non-trivial: day clamped or |months| > 12"

    def strategy(self, ctx):
        return st.fixed_dictionaries({"w": start_wall(None), "amt": amounts})

    def check(self, case, ctx):
        wall = T.wall_from_us(case["w"]).replace(hour=0, minute=0, second=0, microsecond=0)
        a_all = case["amt"]
        a = {k: v for k, v in a_all.items() if k in ("years", "months", "weeks", "days")}
        x = pendulum.date(wall.year, wall.month, wall.day)
        try:
            mw, mwn = model(wall, a), model(wall, neg(a))
        except OverflowError:
            raise Skip("model leaves years 1..9999")
        if not (3 < mw.year < 9997 and 3 < mwn.year < 9997):
            raise Skip("model leaves years 4..9996")

        def same(tag, r, m):
            req(type(r) is Date, f"{tag}: result is not a pendulum Date", got=type(r).__name__)
            req((r.year, r.month, r.day) == (m.year, m.month, m.day), f"{tag}: differs from the calendar model", start=str(x), amt=a, got=str(r), expected=str(m.date()))

        same("Date.add", x.add(**a), mw)
        same("Date.subtract", x.subtract(**a), mwn)
        same("Date.add(negated)", x.add(**neg(a)), mwn)
        same_sign = len({(v > 0) - (v < 0) for k, v in a.items() if k in ("weeks", "days") and v}) <= 1
        if same_sign:
            d = pendulum.duration(**a)
            same("Date + d", x + d, mw)
            same("d + Date", d + x, mw)
            same("Date - d", x - d, mwn)
            same("Date + (-d)", x + (-d), mwn)
        td = D.timedelta(days=a.get("days", 0) + 7 * a.get("weeks", 0))
        try:
            m_td = model(wall, {"days": td.days})
            m_tdn = model(wall, {"days": -td.days})
            same("Date + timedelta", x + td, m_td)
            same("Date - timedelta", x - td, m_tdn)
        except OverflowError:
            pass
        t_units = {k: v for k, v in a_all.items() if k in ("hours", "minutes", "seconds", "microseconds") and v}
        if t_units:
            try:
                r = x.add(**t_units)
            except (TypeError, ValueError, RuntimeError):
                pass
            else:
                raise Violation("Date.add() accepted time units", got=str(r), amt=t_units)
        tm = wall.year * 12 + wall.month - 1 + a.get("years", 0) * 12 + a.get("months", 0)
        y2, m2 = divmod(tm, 12)
        clamped = wall.day > calendar.monthrange(y2, m2 + 1)[1]
        return clamped or abs(a.get("months", 0)) > 12, "clamped" if clamped else "unclamped"


class MonthTable(Sub):
    ambient = True
    """exhaustive: every start month/day of a leap and a non-leap year x delta months -25..25 x delta years"""
    name = "month_table"
    kind = "enum"
    case_timeout = 900.0
    backends = ("py",)
    n = {"quick": 0, "thorough": 0}
    shards = {"quick": 4, "thorough": 8}
    distinct_by_construction = True
    rule = "every (start day of 2023, 2024, 1900, 2000) x months -25..25 x years {0, +1, -4}: Date, naive and UTC DateTime (quick: years 2023/2024, dyears 0)"

    def exhaustive(self, tier):
        return True

    def cases(self, ctx, shard, nshards):
        years = (2023, 2024, 1900, 2000) if ctx.thorough else (2023, 2024)
        dys = (0, 1, -4) if ctx.thorough else (0,)
        i = 0
        for y in years:
            d = D.date(y, 1, 1)
            while d.year == y:
                i += 1
                if i % nshards == shard:
                    for dm in range(-25, 26):
                        for dy in dys:
                            yield {"d": [d.year, d.month, d.day], "months": dm, "years": dy}
                d += D.timedelta(days=1)

    def check(self, case, ctx):
        y, m, d = case["d"]
        a = {"months": case["months"], "years": case["years"]}
        wall = D.datetime(y, m, d, 13, 14, 15, 16)
        mw = model(wall, a)
        r = pendulum.date(y, m, d).add(**a)
        req((r.year, r.month, r.day) == (mw.year, mw.month, mw.day) and type(r) is Date, "Date.add(months/years) differs from the model", got=str(r), expected=str(mw.date()))
        r = pendulum.naive(*T.fields(wall)).add(**a)
        req(T.fields(r) == T.fields(mw), "naive DateTime.add(months/years) differs from the model", got=r.isoformat(), expected=mw.isoformat())
        r = pendulum.datetime(*T.fields(wall)).subtract(**neg(a))
        req(T.fields(r) == T.fields(mw) and r.timezone_name == "UTC", "UTC DateTime.subtract(-months/-years) differs from the model", got=r.isoformat(), expected=mw.isoformat())
        return d > 28 or abs(case["months"]) > 12, "clamp-candidate" if d > 28 else "plain"


class EveryYearFebruary(Sub):
    name = "every_year_february"
    kind = "enum"
    case_timeout = 900.0
    ambient = True
    n = {"quick": 0, "thorough": 0}
    shards = {"quick": 4, "thorough": 8}
    distinct_by_construction = True
    rule = ("EVERY year 2..9998: the shifts that land on or leave the end of February (Jan 29/30/31 + 1 month, Mar 29/31 - 1 month, Feb 28/29 +- 1/4/100/400 years, "
            "Feb 28 + 1 day, Mar 1 - 1 day, Feb 29 +- 0 with a time unit) on Date, naive and UTC DateTime, through add/subtract and the Duration operators: any wrong "
            "leap rule (a century, a multiple of 400 or 4000, a Julian cut-over) in either helper backend shows; all cases non-trivial")

    def exhaustive(self, tier):
        return True

    def cases(self, ctx, shard, nshards):
        for y in range(2, 9999):
            if y % nshards == shard:
                yield {"y": y}

    def check(self, case, ctx):
        y = case["y"]
        feb = calendar.monthrange(y, 2)[1]
        starts = [(1, 29), (1, 30), (1, 31), (3, 29), (3, 31), (2, 28), (2, feb), (3, 1), (12, 31)]
        shifts = [{"months": 1}, {"months": -1}, {"years": 1}, {"years": -1}, {"years": 4}, {"years": -4}, {"years": 100}, {"years": -400}, {"days": 1}, {"days": -1},
                  {"months": 12, "days": 1}, {"hours": 1}, {"weeks": 1, "days": -7, "hours": 24}]
        n = 0
        for m, d in starts:
            wall = D.datetime(y, m, d, 13, 14, 15, 16)
            for a in shifts:
                try:
                    mw = model(wall, a)
                except OverflowError:
                    continue
                if not 2 <= mw.year <= 9998:
                    continue
                n += 1
                if not any(k in a for k in ("hours",)):
                    r = pendulum.date(y, m, d).add(**a)
                    req(type(r) is Date and (r.year, r.month, r.day) == (mw.year, mw.month, mw.day), "Date.add differs from the calendar model", start=str(wall.date()), amt=a,
                        got=str(r), expected=str(mw.date()))
                    r = pendulum.date(y, m, d) + pendulum.duration(**a)
                    req((r.year, r.month, r.day) == (mw.year, mw.month, mw.day), "Date + Duration differs from the calendar model", start=str(wall.date()), amt=a, got=str(r))
                for nm, x in (("naive", pendulum.naive(*T.fields(wall))), ("UTC", pendulum.datetime(*T.fields(wall)))):
                    r = x.add(**a)
                    req(T.fields(r) == T.fields(mw), f"{nm} DateTime.add differs from the calendar model", start=wall.isoformat(), amt=a, got=r.isoformat(), expected=mw.isoformat())
                    r = x.subtract(**neg(a))
                    req(T.fields(r) == T.fields(mw), f"{nm} DateTime.subtract(negated) differs from the calendar model", start=wall.isoformat(), amt=a, got=r.isoformat(),
                        expected=mw.isoformat())
                    r = x + pendulum.duration(**a)
                    req(T.fields(r) == T.fields(mw), f"{nm} DateTime + Duration differs from the calendar model", start=wall.isoformat(), amt=a, got=r.isoformat(), expected=mw.isoformat())
        ctx.cache["n"] = ctx.cache.get("n", 0) + n
        ctx.cache["evidence_extra"] = {"inner_evaluations": ctx.cache["n"], "inner_nontrivial": ctx.cache["n"]}
        return True, "leap" if feb == 29 else "common"


SUBS = [DateTimeArith(), DurationOps(), DateArith(), MonthTable(), EveryYearFebruary()]
