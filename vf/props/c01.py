"""C01 — Timezone conversion preserves the instant and matches the tz database."""
from __future__ import annotations

import datetime as D
import math
import warnings
import zoneinfo

import dateutil.tz
import pytz
from hypothesis import strategies as st

import pendulum
from pendulum import DateTime
from vf import oracle_tz as T
from vf import strategies as S
from vf.core import Skip, Sub, Violation, req

warnings.simplefilter("ignore")
US = 10**6
RULE = ("oracle: native (datetime+zoneinfo) rendering of the integer instant; instants recomputed from fields and "
        "utcoffset() by integer arithmetic")
ASSUMPTIONS = [
    "CPython zoneinfo + the tz data it loads are 'the tz database'",
    "pytz/dateutil sources are only used where their own UTC offset at the instant equals zoneinfo's (they ship/parse their own data)",
    "timestamp() is compared within one float ulp; float from_timestamp within ceil(ulp*1e6)+1 microseconds",
]


def fixed_name(off):
    sign = "-" if off < 0 else "+"
    m = abs(off) // 60
    return f"{sign}{m // 60:02d}:{m % 60:02d}"


def expect(tag, got, u, zone, name="same"):
    """got must be a DateTime denoting instant u, rendered as the tz database renders u in zone."""
    req(isinstance(got, DateTime), f"{tag}: result is not a pendulum DateTime", got=type(got).__name__)
    exp = T.render(u, zone) if isinstance(zone, str) else T.render_fixed(u, zone)
    req(got.utcoffset() is not None, f"{tag}: result is naive")
    gu = T.us(got)
    req(gu == u, f"{tag}: instant changed by {gu - u} us", got=got.isoformat(), expected=exp.isoformat())
    req(T.fields(got) == T.fields(exp) and got.utcoffset() == exp.utcoffset(),
        f"{tag}: local fields/offset differ from the tz database rendering", got=got.isoformat(), expected=exp.isoformat())
    if name == "same":
        want = zone if isinstance(zone, str) else fixed_name(zone)
        req(got.timezone_name == want, f"{tag}: reports timezone {got.timezone_name!r}, requested {want!r}")


def is_nt(u, *zones):
    offs = set()
    for z in zones:
        if isinstance(z, str):
            if T.near_transition(u, z) is not None:
                return True
            offs.add(T.offset_at(u, z))
        else:
            offs.add(z)
    return len(offs) > 1


@st.composite
def conv_case(draw):
    a, b, c = draw(S.zones()), draw(S.zones()), draw(S.zones())
    src = draw(st.sampled_from([a, b, c]))
    u = draw(st.one_of(S.instant_near_transition(src), S.instant_near_transition(src), S.uniform_instant()))
    return {"a": a, "b": b, "c": c, "u": u, "off": draw(S.fixed_offset_seconds()),
            "off2": draw(st.integers(-86399, 86399))}


class Convert(Sub):
    ambient = True
    name = "convert"
    n = {"quick": 10000, "thorough": 250000}
    shards = {"quick": 3, "thorough": 8}
    rule = ("targets named in every documented way (name, Timezone, FixedTimezone, ZoneInfo, datetime.timezone, a number of hours) through in_timezone / in_tz / astimezone / "
            "from_timestamp / instance(tz=); A->B->C == A->C; alias values (other pass of an overlap); non-trivial: instant within +-gap of a transition of a zone involved, "
            "or zones differ in offset at the instant")

    def describe(self, case):
        return {"value": T.render(case["u"], case["a"]).isoformat()}

    def strategy(self, ctx):
        return conv_case()

    def check(self, case, ctx):
        a, b, c, u, off = case["a"], case["b"], case["c"], case["u"], case["off"]
        A = pendulum.instance(T.render(u, a))
        expect("instance(zoneinfo-aware)", A, u, a)
        B = A.in_timezone(b)
        expect("in_timezone(name)", B, u, b)
        expect("in_tz(Timezone)", A.in_tz(pendulum.timezone(b)), u, b)
        expect("astimezone(Timezone)", A.astimezone(pendulum.timezone(b)), u, b)
        E = A.astimezone(T.zi(b))
        expect("astimezone(ZoneInfo)", E, u, b, name=None)
        req(getattr(E.tzinfo, "key", None) == b, "astimezone(ZoneInfo): result does not carry the requested tzinfo")
        # a value that CARRIES a foreign tzinfo (what astimezone(ZoneInfo / datetime.timezone) hands back) converts on like any other aware value
        expect("foreign-tzinfo value .in_timezone(name)", E.in_timezone(c), u, c)
        expect("foreign-tzinfo value .in_tz(UTC)", E.in_tz("UTC"), u, "UTC")
        expect("foreign-tzinfo value .astimezone(Timezone)", E.astimezone(pendulum.timezone(c)), u, c)
        expect("foreign-tzinfo value .astimezone(ZoneInfo)", E.astimezone(T.zi(c)), u, c, name=None)
        E2 = A.astimezone(D.timezone(D.timedelta(seconds=off)))
        expect("astimezone(datetime.timezone)", E2, u, off, name=None)
        expect("datetime.timezone value .in_timezone(name)", E2.in_timezone(b), u, b)
        expect("datetime.timezone value .astimezone(Timezone)", E2.astimezone(pendulum.timezone(b)), u, b)
        C1 = B.in_timezone(c)
        C2 = A.in_timezone(c)
        expect("A->B->C", C1, u, c)
        expect("A->C", C2, u, c)
        req((T.fields(C1), C1.utcoffset(), C1.fold, C1.timezone_name) == (T.fields(C2), C2.utcoffset(), C2.fold, C2.timezone_name),
            "A->B->C differs from A->C", chain=C1.isoformat(), direct=C2.isoformat(), folds=[C1.fold, C2.fold])
        # fixed offsets (whole minutes: the documented +-hh:mm range; and second granularity through int seconds)
        F = A.in_timezone(pendulum.timezone(off))
        expect("in_timezone(fixed)", F, u, off)
        expect("fixed->zone", F.in_timezone(b), u, b)
        expect("fixed->zone via astimezone", F.astimezone(pendulum.timezone(b)), u, b)
        off2 = case["off2"]
        F2 = A.in_timezone(pendulum.tz.fixed_timezone(off2))
        expect("in_timezone(fixed seconds)", F2, u, off2, name=None)
        expect("back from UTC", A.in_timezone("UTC").in_timezone(a), u, a)
        # every documented way of NAMING the target: a number of hours (int or float; quarter hours are exact in binary), a native
        # datetime.timezone, a ZoneInfo object; through in_timezone / in_tz / from_timestamp / instance(tz=)
        q = max(-95, min(95, off // 900)) * 900
        hours = q // 3600 if q % 3600 == 0 and (u >> 3) % 2 else q / 3600
        expect("in_timezone(hours as a number)", A.in_timezone(hours), u, q)
        expect("in_tz(hours as a number)", B.in_tz(hours), u, q)
        expect("in_timezone(datetime.timezone)", A.in_timezone(D.timezone(D.timedelta(seconds=off))), u, off, name=None)
        expect("in_timezone(ZoneInfo)", A.in_timezone(T.zi(c)), u, c)
        if u % US == 0:
            expect("from_timestamp(int, hours as a number)", pendulum.from_timestamp(u // US, tz=hours), u, q)
        expect("instance(aware, tz=hours) keeps the instant", pendulum.instance(T.render(u, b), tz=hours).in_timezone(hours), u, q)
        # value built by pendulum itself (not via instance)
        P = pendulum.datetime(1970, 1, 1, tz="UTC").add(microseconds=u % US).add(seconds=u // US)
        if T.us(P) == u:
            expect("constructed UTC -> zone", P.in_timezone(b), u, b)
        # alias values: every other instant that shares A's wall-clock fields in zone a (the other pass of a repeated hour) is converted
        # to the same targets right afterwards - equal-looking values must not be confused (native == / hash ignore fold within one tzinfo)
        for u2 in T.preimages(T.naive_us(T.render(u, a)), a):
            if u2 != u:
                A2 = pendulum.instance(T.render(u2, a))
                expect("other pass: instance", A2, u2, a)
                expect("other pass: in_timezone(name)", A2.in_timezone(b), u2, b)
                expect("other pass: astimezone", A2.astimezone(pendulum.timezone(c)), u2, c)
                expect("other pass: in_timezone(fixed)", A2.in_timezone(pendulum.timezone(off)), u2, off)
                expect("first value again", A.in_timezone(b), u, b)
        return is_nt(u, a, b, c), ("near-transition" if any(T.near_transition(u, z) for z in (a, b, c)) else "plain")


KINDS = ["pendulum", "zoneinfo", "pytz", "dateutil", "timezone", "pendulum-fixed"]


@st.composite
def source_case(draw):
    a = draw(S.zones())
    u = draw(st.one_of(S.instant_near_transition(a), S.instant_near_transition(a), S.instant_near_transition(a), S.uniform_instant()))
    return {"a": a, "b": draw(S.zones()), "u": u, "kind": draw(st.sampled_from(KINDS)),
            "off": draw(S.fixed_offset_seconds()), "via": draw(st.sampled_from(["instance", "DateTime.instance", "in_timezone"]))}


class Sources(Sub):
    ambient = True
    name = "sources"
    n = {"quick": 12000, "thorough": 300000}
    shards = {"quick": 3, "thorough": 8}
    rule = "non-trivial: instant within +-gap of a transition of the source zone (fold/offset selection matters)"

    def describe(self, case):
        return {"value": T.render(case["u"], case["a"]).isoformat()}

    def strategy(self, ctx):
        return source_case()

    def check(self, case, ctx):
        a, b, u, kind, off = case["a"], case["b"], case["u"], case["kind"], case["off"]
        oracle = T.render(u, a)
        utc_native = T.EPOCH + D.timedelta(microseconds=u)
        if kind == "pendulum":
            tz = pendulum.timezone(a)
            nat = D.datetime(*T.fields(oracle), tzinfo=tz, fold=oracle.fold)
            expz, named = a, "same"
        elif kind == "zoneinfo":
            nat, expz, named = oracle, a, "same"
        elif kind == "pytz":
            try:
                ptz = pytz.timezone(a)
            except pytz.UnknownTimeZoneError:
                raise Skip("pytz does not know the zone")
            nat = utc_native.astimezone(ptz)
            if nat.utcoffset() != oracle.utcoffset() or T.us(nat) != u:
                raise Skip("pytz data disagrees with zoneinfo at this instant")
            expz, named = a, "same"
        elif kind == "dateutil":
            dtz = dateutil.tz.gettz(a)
            if dtz is None:
                raise Skip("dateutil cannot load the zone")
            nat = utc_native.astimezone(dtz)
            if nat.utcoffset() != oracle.utcoffset() or T.us(nat) != u:
                raise Skip("dateutil data disagrees with zoneinfo at this instant")
            # dateutil zones carry no IANA key pendulum can read: the result is a fixed offset
            # (or UTC); only instant, fields and offset are asserted, not the name
            expz, named = T.td_us(nat.utcoffset()) // US, None
            if T.td_us(nat.utcoffset()) % US:
                raise Skip("sub-second offset")
        elif kind == "timezone":
            nat = utc_native.astimezone(D.timezone(D.timedelta(seconds=off)))
            expz, named = off, None
        else:
            nat = D.datetime(*T.fields(T.render_fixed(u, off)), tzinfo=pendulum.tz.fixed_timezone(off))
            expz, named = off, "same"
        via = case["via"]
        if via == "instance":
            P = pendulum.instance(nat)
        elif via == "DateTime.instance":
            P = DateTime.instance(nat)
        else:
            P = pendulum.instance(nat).in_timezone(b).in_timezone(a if isinstance(expz, str) and expz == a else (pendulum.timezone(expz) if isinstance(expz, str) else pendulum.tz.fixed_timezone(expz)))
        expect(f"{via}({kind}-aware)", P, u, expz, name=named)
        if kind == "timezone" and off == 0:
            pass
        # converting the wrapped value onwards still renders the same instant
        expect(f"{via}({kind}-aware).in_timezone", P.in_timezone(b), u, b)
        nt = T.near_transition(u, a) is not None
        _, pre, _ = T.classify_wall(T.naive_us(oracle), a) if nt else (None, [], None)
        lab = kind + (":second-pass" if len(pre) == 2 and u == pre[1] else ":first-pass" if len(pre) == 2 else "")
        return nt, lab


@st.composite
def ts_case(draw):
    a = draw(S.zones())
    u = draw(st.one_of(S.instant_near_transition(a), S.uniform_instant(), S.uni(-3 * 10**15, 5 * 10**15)))
    return {"a": a, "b": draw(S.zones()), "u": u, "off": draw(S.fixed_offset_seconds())}


class Timestamps(Sub):
    ambient = True
    name = "timestamps"
    n = {"quick": 10000, "thorough": 250000}
    shards = {"quick": 3, "thorough": 8}
    rule = "non-trivial: negative or sub-second instant, or instant near a transition of the target zone"

    def strategy(self, ctx):
        return ts_case()

    def check(self, case, ctx):
        a, b, u, off = case["a"], case["b"], case["u"], case["off"]
        A = pendulum.instance(T.render(u, a))
        s = u // US
        req(A.int_timestamp == s and type(A.int_timestamp) is int, "int_timestamp is not floor(instant in seconds)",
            got=A.int_timestamp, expected=s)
        f = A.timestamp()
        req(abs(f - u / US) <= math.ulp(u / US), "timestamp() is more than one ulp from the instant", got=f, expected=u / US)
        req(A.float_timestamp == f, "float_timestamp differs from timestamp()")
        G = pendulum.from_timestamp(s, b)
        expect("from_timestamp(int, tz)", G, s * US, b)
        expect("from_timestamp(int) default UTC", pendulum.from_timestamp(s), s * US, "UTC")
        req(G.int_timestamp == s, "int_timestamp does not invert from_timestamp(int)", got=G.int_timestamp, expected=s)
        expect("from_timestamp(int, fixed)", pendulum.from_timestamp(s, pendulum.timezone(off)), s * US, off)
        expect("DateTime.fromtimestamp(int, Timezone)", DateTime.fromtimestamp(s, pendulum.timezone(b)), s * US, b)
        # float path: exact while the float carries microseconds, bounded by the ulp beyond
        tol = math.ceil(math.ulp(f) * US) + (1 if math.ulp(f) * US >= 0.5 else 0)
        H = pendulum.from_timestamp(f, b)
        req(isinstance(H, DateTime) and H.timezone_name == b, "from_timestamp(float): wrong type or zone")
        hu = T.us(H)
        req(abs(hu - u) <= (0 if math.ulp(f) * US < 0.25 else tol), "from_timestamp(float) does not invert timestamp()",
            got=hu, expected=u, tol_us=tol)
        expR = T.render(hu, b)
        req(T.fields(H) == T.fields(expR) and H.utcoffset() == expR.utcoffset(), "from_timestamp(float): rendering differs from tz database",
            got=H.isoformat(), expected=expR.isoformat())
        nt = u < 0 or u % US != 0 or T.near_transition(u, b) is not None
        return nt, ("neg" if u < 0 else "pos") + ("-frac" if u % US else "")


class AllTransitions(Sub):
    ambient = True
    """Exhaustive over the enumerated transitions (every zone) x probe offsets."""
    name = "all_transitions"
    kind = "enum"
    case_timeout = 900.0
    backends = ("rust",)
    n = {"quick": 0, "thorough": 0}
    shards = {"quick": 4, "thorough": 16}
    distinct_by_construction = True
    rule = "every enumerated transition t of every zone probed at {-1us,0,+1us,+-1s,+-gap,+-gap-+1us}; quick: every 12th transition (rotating with the seed)"

    def exhaustive(self, tier):
        return tier == "thorough"

    def cases(self, ctx, shard, nshards):
        zs = T.all_zones()
        k = 0
        for zi_, z in enumerate(zs):
            if zi_ % nshards != shard:
                continue
            others = [zs[(zi_ * 7 + j * 131 + ctx.seed) % len(zs)] for j in range(3)]
            for t, a, b in T.transitions(z):
                k += 1
                if not ctx.thorough and (k + ctx.seed) % 12:
                    continue
                g = abs(b - a) * US
                for d in (-1, 0, 1, -US, US, -g, g, g - 1, -g + 1, -g - 1, g + 1):
                    u = t * US + d
                    if S.LO_U <= u <= S.HI_U:
                        yield {"z": z, "u": u, "to": others[(k + d) % 3]}

    def check(self, case, ctx):
        z, u, to = case["z"], case["u"], case["to"]
        A = pendulum.instance(T.render(u, z))
        expect("instance(zoneinfo-aware)", A, u, z)
        B = A.in_timezone(to)
        expect("in_timezone", B, u, to)
        expect("round trip", B.in_timezone(z), u, z)
        expect("from UTC", pendulum.instance(T.render(u, "UTC")).in_timezone(z), u, z)
        req(A.int_timestamp == u // US, "int_timestamp", got=A.int_timestamp)
        return True, "transition-probe"


class History(Sub):
    ambient = True
    """RuleBasedStateMachine: one value kept alive through conversions, arithmetic, copies and global switches (DESIGN 4.21)"""
    name = "history_machine"
    kind = "machine"
    n = {"quick": 400, "thorough": 8000}          # machines (histories), summed over shards
    shards = {"quick": 4, "thorough": 16}
    steps = {"quick": 30, "thorough": 50}
    rule = ("histories of up to 30 (thorough: 50) operations on one live value - convert (4 entry points, named and fixed zones), add/subtract fixed units, +/- timedelta, "
            "calendar add, instance(twin), parse(iso), pickle/copy/deepcopy, week/locale switches, jump next to a transition - the oracle is checked after every step; "
            "non-trivial: the history passes within a gap length of a transition; distinct by the full step list")

    def machine(self, ctx, acc):
        from vf.machine_dt import make_machine
        return make_machine(acc)

    def check(self, case, ctx):
        from vf.machine_dt import replay
        st_ = replay(case)
        return st_.nontrivial, "history"


SUBS = [Convert(), Sources(), Timestamps(), AllTransitions(), History()]
