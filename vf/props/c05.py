"""C05 — An interval's length is the exact elapsed time between its endpoints."""
from __future__ import annotations

import datetime as D
import warnings

from hypothesis import strategies as st

import pendulum
from pendulum import DateTime, Interval
from vf import oracle_tz as T
from vf import strategies as S
from vf.core import Known, Skip, Sub, Violation, req

warnings.simplefilter("ignore")
US = 10**6
EXACT = 2**33 * US
RULE = "oracle: integer difference of the two instants (exact below 2^33 s, 64 us tolerance beyond, as the property states)"
ASSUMPTIONS = ["zoneinfo/tzdata give the instants of the endpoints",
               "native subtraction clause asserted where the native result is the elapsed time (different tzinfo objects or equal offsets)"]


def slots(iv):
    return (D.timedelta.days.__get__(iv) * 86400 + D.timedelta.seconds.__get__(iv)) * US + D.timedelta.microseconds.__get__(iv)


def trunc(a, b):
    q = abs(a) // b
    return q if a >= 0 else -q


def tol(true):
    return 0 if abs(true) < EXACT else 64


def check_len(tag, iv, true, fails):
    if not isinstance(iv, Interval):
        raise Violation(f"{tag}: result is not an Interval", got=type(iv).__name__)
    got = slots(iv)
    if abs(got - true) > tol(true):
        fails.append((tag, "", got, true))
        return
    if tol(true) == 0:
        for nm, unit in (("in_seconds", US), ("in_minutes", 60 * US), ("in_hours", 3600 * US)):
            v = getattr(iv, nm)()
            if v != trunc(true, unit):
                fails.append((tag, nm, v, trunc(true, unit)))
        ts = iv.total_seconds()
        if abs(ts * US - true) > max(1, abs(true) * 2**-52):
            fails.append((tag, "total_seconds", ts, true / US))


@st.composite
def pair_case(draw):
    z1 = draw(S.zones())
    same = draw(st.integers(0, 2))
    z2 = z1 if same else draw(S.zones())
    u1 = draw(st.one_of(S.instant_near_transition(z1), S.uniform_instant()))
    m = draw(st.integers(0, 6))
    tr_all = T.transitions(z1)
    if m == 6 and tr_all:
        # a hair's breadth apart on either side of an offset change, in any century: two instants 1..40 us apart whose offsets differ (ordering them
        # through float timestamps collapses them far from 1970 - seeded changes C05-r7, C18-r8)
        t = tr_all[draw(st.integers(0, len(tr_all) - 1))][0] * US
        k1, k2 = draw(st.integers(1, 20)), draw(st.integers(0, 20))
        a_, b_ = S.clamp_u(t - k1), S.clamp_u(t + k2)
        if draw(st.booleans()):
            a_, b_ = b_, a_
        return {"z1": z1, "z2": z1, "u1": a_, "u2": b_, "prov": draw(st.sampled_from(["convert", "construct"]))}
    if m <= 1:
        u2 = u1 + draw(S.uni(-3 * 86400 * US, 3 * 86400 * US))
    elif m == 2:
        # straddle / sit inside the same transition region
        tr = T.near_transition(u1, z1)
        g = abs(tr[2] - tr[1]) * US if tr else 3600 * US
        u2 = u1 + draw(st.integers(-2 * g, 2 * g))
    elif m == 3:
        u2 = draw(S.instant_near_transition(z2))
    elif m == 4:
        u2 = draw(S.uniform_instant())
    else:
        u2 = u1 + draw(st.sampled_from([0, 1, -1, US, 2**33 * US - 1, 2**33 * US, 2**33 * US + 1, -(2**33) * US]))
    u2 = S.clamp_u(u2)
    return {"z1": z1, "z2": z2, "u1": u1, "u2": u2, "prov": draw(st.sampled_from(["convert", "construct"]))}


def mk(zone, u, prov):
    r = T.render(u, zone)
    x = pendulum.instance(r) if prov == "convert" else pendulum.datetime(*T.fields(r), tz=zone, fold=r.fold)
    req(T.us(x) == u, "harness: endpoint not built at the requested instant", got=x.isoformat())
    return x


class Pairs(Sub):
    ambient = True
    name = "aware_pairs"
    n = {"quick": 14000, "thorough": 400000}
    shards = {"quick": 4, "thorough": 8}
    rule = "non-trivial: endpoints straddle a transition of a shared zone, or one lies within a gap length of a transition, or zones differ"

    def describe(self, case):
        return {"a": T.render(case["u1"], case["z1"]).isoformat(), "b": T.render(case["u2"], case["z2"]).isoformat(), "true_elapsed_us": case["u2"] - case["u1"]}

    def strategy(self, ctx):
        return pair_case()

    def check(self, case, ctx):
        z1, z2, u1, u2 = case["z1"], case["z2"], case["u1"], case["u2"]
        a, b = mk(z1, u1, case["prov"]), mk(z2, u2, case["prov"])
        true = u2 - u1
        fails = []
        check_len("b - a", b - a, true, fails)
        check_len("a.diff(b, False)", a.diff(b, False), true, fails)
        check_len("interval(a, b)", pendulum.interval(a, b), true, fails)
        check_len("a - b (swapped)", a - b, -true, fails)
        check_len("interval(b, a)", pendulum.interval(b, a), -true, fails)
        check_len("abs(b - a)", abs(b - a), abs(true), fails)
        check_len("abs(a - b)", abs(a - b), abs(true), fails)
        check_len("interval(a, b, absolute=True)", pendulum.interval(a, b, absolute=True), abs(true), fails)
        check_len("interval(b, a, absolute=True)", pendulum.interval(b, a, absolute=True), abs(true), fails)
        check_len("a.diff(b)", a.diff(b), abs(true), fails)
        check_len("b.diff(a)", b.diff(a), abs(true), fails)
        # abs() of what is already a magnitude (whichever endpoint was given first) is that magnitude again
        check_len("abs(a.diff(b))", abs(a.diff(b)), abs(true), fails)
        check_len("abs(b.diff(a))", abs(b.diff(a)), abs(true), fails)
        check_len("abs(interval(a, b, absolute=True))", abs(pendulum.interval(a, b, absolute=True)), abs(true), fails)
        check_len("abs(interval(b, a, absolute=True))", abs(pendulum.interval(b, a, absolute=True)), abs(true), fails)
        check_len("abs(abs(a - b))", abs(abs(a - b)), abs(true), fails)
        check_len("abs(abs(b - a))", abs(abs(b - a)), abs(true), fails)
        # native operands
        na, nb = T.render(u1, z1), T.render(u2, z2)
        check_len("pendulum - native", b - na, true, fails)
        check_len("native - pendulum", nb - a, true, fails)
        if z1 != z2 or na.utcoffset() == nb.utcoffset():
            nat = T.td_us(nb - na)
            if nat != true:
                raise Skip("native subtraction itself is not the elapsed time")
        wall_order = (T.naive_us(b) > T.naive_us(a)) - (T.naive_us(b) < T.naive_us(a))
        inst_order = (true > 0) - (true < 0)
        same_tz = a.tzinfo is b.tzinfo
        region = same_tz and inst_order != 0 and wall_order != inst_order
        if fails:
            # K-C05-1: same tzinfo, wall-clock order opposite to instant order -> the magnitude forms come out negated
            if region and all(t in ABS_FAMILY and sub == "" and got == -exp for t, sub, got, exp in fails):
                raise Known("K-C05-1", f"{fails[0]}")
            t, sub, got, exp = fails[0]
            raise Violation(f"{t}{'.' + sub + '()' if sub else ''}: length is {got}, true elapsed value is {exp}", a=a.isoformat(), b=b.isoformat(),
                            folds=[a.fold, b.fold], all_failures=[f[0] + "/" + f[1] for f in fails])
        straddle = z1 == z2 and T.transition_between(u1, u2, z1)
        nt = straddle or z1 != z2 or T.near_transition(u1, z1) is not None or T.near_transition(u2, z2) is not None
        return nt, ("wall-order-reversed" if region else "straddle" if straddle else "same-zone" if z1 == z2 else "cross-zone")


ABS_FAMILY = {"abs(b - a)", "abs(a - b)", "interval(a, b, absolute=True)", "interval(b, a, absolute=True)", "a.diff(b)", "b.diff(a)"}


class NaiveDate(Sub):
    ambient = True
    name = "naive_date_fixed"
    backends = ("py",)
    n = {"quick": 6000, "thorough": 150000}
    shards = {"quick": 2, "thorough": 4}
    rule = "naive pairs, Date pairs, fixed-offset pairs; non-trivial: negative span or sub-second difference or different fixed offsets"

    def strategy(self, ctx):
        return st.fixed_dictionaries({"kind": st.sampled_from(["naive", "date", "fixed"]), "w1": S.uniform_instant(),
                                      "w2": S.uniform_instant() | S.uni(-5 * 86400 * US, 5 * 86400 * US),
                                      "o1": S.fixed_offset_seconds(), "o2": S.fixed_offset_seconds(), "rel": st.booleans()})

    def check(self, case, ctx):
        w1 = case["w1"]
        w2 = S.clamp_u(w1 + case["w2"]) if (case["rel"] and abs(case["w2"]) < 10 * 86400 * US) else S.clamp_u(case["w2"])
        kind = case["kind"]
        fails = []
        if kind == "naive":
            a, b = pendulum.naive(*S.wall_tuple(w1)), pendulum.naive(*S.wall_tuple(w2))
            true = w2 - w1
        elif kind == "fixed":
            a = pendulum.instance(T.render_fixed(w1, case["o1"]))
            b = pendulum.instance(T.render_fixed(w2, case["o2"]))
            true = w2 - w1
        else:
            d1, d2 = T.wall_from_us(w1).date(), T.wall_from_us(w2).date()
            a, b = pendulum.date(d1.year, d1.month, d1.day), pendulum.date(d2.year, d2.month, d2.day)
            true = (d2 - d1).days * 86400 * US
        check_len("b - a", b - a, true, fails)
        check_len("a.diff(b, False)", a.diff(b, False), true, fails)
        check_len("interval(a, b)", pendulum.interval(a, b), true, fails)
        check_len("a - b", a - b, -true, fails)
        check_len("abs(b - a)", abs(b - a), abs(true), fails)
        check_len("abs(a - b)", abs(a - b), abs(true), fails)
        check_len("interval(b, a, absolute=True)", pendulum.interval(b, a, absolute=True), abs(true), fails)
        check_len("a.diff(b)", a.diff(b), abs(true), fails)
        check_len("abs(a.diff(b))", abs(a.diff(b)), abs(true), fails)
        check_len("abs(b.diff(a))", abs(b.diff(a)), abs(true), fails)
        check_len("abs(interval(b, a, absolute=True))", abs(pendulum.interval(b, a, absolute=True)), abs(true), fails)
        check_len("abs(interval(a, b, absolute=True))", abs(pendulum.interval(a, b, absolute=True)), abs(true), fails)
        check_len("abs(abs(a - b))", abs(abs(a - b)), abs(true), fails)
        if kind == "date":
            iv = b - a
            req(iv.in_days() == trunc(true, 86400 * US), "Date interval in_days() wrong", got=iv.in_days())
            nd = D.date(a.year, a.month, a.day)
            check_len("Date - native date", b - nd, true, fails)
        if kind == "naive":
            nn = D.datetime(*T.fields(a))
            check_len("naive - native naive", b - nn, true, fails)
            check_len("native naive - naive", D.datetime(*T.fields(b)) - a, true, fails)
        if fails:
            t, sub, got, exp = fails[0]
            raise Violation(f"{kind}: {t}{'.' + sub + '()' if sub else ''}: length is {got}, true value is {exp}", a=str(a), b=str(b))
        return true < 0 or true % US != 0 or (kind == "fixed" and case["o1"] != case["o2"]), kind


class NativeOperands(Sub):
    ambient = True
    name = "native_operands"
    n = {"quick": 8000, "thorough": 200000}
    shards = {"quick": 2, "thorough": 8}
    rule = ("pendulum DateTime minus / subtracted from a NATIVE aware datetime whose tzinfo is foreign (zoneinfo.ZoneInfo, pytz localized with either is_dst, pytz attached "
            "through the constructor (LMT offset), dateutil, datetime.timezone), the native wall time being anywhere - also inside a gap or an overlap, either fold: the "
            "length is the native subtraction between values with different tzinfo objects, i.e. (p's instant) - (n's wall - n.utcoffset()); non-trivial: the native "
            "wall time is skipped or repeated in its zone, or the tzinfo is not a ZoneInfo")

    def strategy(self, ctx):
        @st.composite
        def gen(draw):
            z = draw(S.zones_with_transitions())
            zp = z if draw(st.booleans()) else draw(S.zones())
            return {"zn": z, "zp": zp, "w": draw(st.one_of(S.wall_near_transition(z), S.wall_near_transition(z), S.uniform_instant())), "fold": draw(st.integers(0, 1)),
                    "kind": draw(st.sampled_from(["zoneinfo", "zoneinfo", "pytz-localize", "pytz-ctor", "dateutil", "timezone", "timezone-frac"])),
                    "frac_us": draw(st.sampled_from([1, 500000, 999999, 250000]) | st.integers(1, 999999)), "is_dst": draw(st.booleans()),
                    "up": draw(st.one_of(S.uniform_instant(), S.instant_near_transition(z))), "prov": draw(st.sampled_from(["convert", "construct"]))}
        return gen()

    def check(self, case, ctx):
        import dateutil.tz
        import pytz
        zn, kind = case["zn"], case["kind"]
        w = S.clamp_u(case["w"])
        f = T.fields(T.wall_from_us(w))
        if kind == "zoneinfo":
            n = D.datetime(*f, tzinfo=T.zi(zn), fold=case["fold"])
        elif kind in ("pytz-localize", "pytz-ctor"):
            try:
                ptz = pytz.timezone(zn)
            except pytz.UnknownTimeZoneError:
                raise Skip("pytz does not know the zone")
            n = ptz.localize(D.datetime(*f), is_dst=case["is_dst"]) if kind == "pytz-localize" else D.datetime(*f, tzinfo=ptz)
        elif kind == "dateutil":
            dtz = dateutil.tz.gettz(zn)
            if dtz is None:
                raise Skip("dateutil cannot load the zone")
            n = D.datetime(*f, tzinfo=dtz, fold=case["fold"])
        elif kind == "timezone-frac":
            # a datetime.timezone may carry a sub-second offset (local mean time from a longitude): the instant is still wall - offset
            n = D.datetime(*f, tzinfo=D.timezone(D.timedelta(seconds=T.offset_at(w, zn), microseconds=case.get("frac_us", 500000))))
        else:
            n = D.datetime(*f, tzinfo=D.timezone(D.timedelta(seconds=T.offset_at(w, zn))))
        off = n.utcoffset()
        if off is None:
            raise Skip("tzinfo gives no offset")
        un = w - T.td_us(off)
        if not (S.LO_U <= un <= S.HI_U):
            raise Skip("native value outside years 2..9998")
        p = mk(case["zp"], S.clamp_u(case["up"]), case["prov"])
        true = T.us(p) - un
        fails = []
        check_len("pendulum - native", p - n, true, fails)
        check_len("native - pendulum", n - p, -true, fails)
        if fails:
            t, sub, got, exp = fails[0]
            raise Violation(f"{t}{'.' + sub + '()' if sub else ''} ({kind} tzinfo): length is {got}, the native subtraction gives {exp}", p=p.isoformat(), native=n.isoformat(),
                            native_fold=n.fold, native_offset=str(off))
        k = T.classify_wall(w, zn)[0]
        return k != "unique" or kind != "zoneinfo", kind + ":" + k


SUBS = [Pairs(), NaiveDate(), NativeOperands()]
