"""C12 — start_of/end_of delimit exactly the calendar unit that contains the value."""
from __future__ import annotations

import calendar
import datetime as D
import warnings

from hypothesis import strategies as st

import pendulum
from pendulum import Date, DateTime
from vf import oracle_tz as T
from vf import strategies as S
from vf.core import Known, Skip, Sub, Violation, req

warnings.simplefilter("ignore")
US = 10**6
DAY = 86400 * US
RULE = ("oracle: unit identity from the local fields (native rendering), unit boundary wall time W computed by calendar arithmetic, pre-image oracle for W; "
        "W unique -> exact instant; W skipped/repeated -> candidate set with the direction-correct candidate always accepted")
ASSUMPTIONS = ["zoneinfo/tzdata", "the statement does not say whether the two occurrences of a repeated wall-clock unit are one unit or two: for second/minute/hour, when x itself lies in "
               "the overlap, the occurrence containing x is accepted as well (pinned by the repository's own tests); day and larger units span both occurrences", "decade/century units exercised for years 100..9899 (boundaries must be representable)"]
UNITS = ["second", "minute", "hour", "day", "week", "month", "year", "decade", "century"]
DATE_UNITS = ["day", "week", "month", "year", "decade", "century"]
PROVS = ["constructed-fold1", "constructed-fold0", "converted", "instance", "parsed"]


def unit_bounds(f, unit, ws):
    """(start wall us, end wall us) of the unit containing local fields f; ws = configured first weekday (0=Monday)"""
    y, mo, d, h, mi, s, us = f
    day0 = T.naive_us(D.datetime(y, mo, d))
    if unit == "second":
        a = day0 + ((h * 60 + mi) * 60 + s) * US
        return a, a + US - 1
    if unit == "minute":
        a = day0 + (h * 60 + mi) * 60 * US
        return a, a + 60 * US - 1
    if unit == "hour":
        a = day0 + h * 3600 * US
        return a, a + 3600 * US - 1
    if unit == "day":
        return day0, day0 + DAY - 1
    if unit == "week":
        wd = D.date(y, mo, d).weekday()
        a = day0 - ((wd - ws) % 7) * DAY
        return a, a + 7 * DAY - 1
    if unit == "month":
        return T.naive_us(D.datetime(y, mo, 1)), T.naive_us(D.datetime(y, mo, calendar.monthrange(y, mo)[1])) + DAY - 1
    if unit == "year":
        y0, y1 = y, y
    elif unit == "decade":
        y0 = y - y % 10
        y1 = y0 + 9
    else:
        y0 = (y - 1) // 100 * 100 + 1
        y1 = y0 + 99
    return T.naive_us(D.datetime(y0, 1, 1)), T.naive_us(D.datetime(y1, 12, 31)) + DAY - 1


def unit_id(f, unit, ws):
    if unit in ("year", "decade", "century"):      # keyed by years only: the neighbouring unit may end after year 9999
        y = f[0]
        y0 = y if unit == "year" else y - y % 10 if unit == "decade" else (y - 1) // 100 * 100 + 1
        return ("y", y0)
    return unit_bounds(f, unit, ws)


def make(zone, u, prov):
    r = T.render(u, zone)
    if prov == "constructed-fold1":
        kind, pre, _ = T.classify_wall(T.naive_us(r), zone)
        if kind != "unique":
            return pendulum.instance(r)
        return pendulum.datetime(*T.fields(r), tz=zone, fold=1)
    if prov == "constructed-fold0":
        kind, pre, _ = T.classify_wall(T.naive_us(r), zone)
        if kind != "unique":
            return pendulum.instance(r)
        return pendulum.datetime(*T.fields(r), tz=zone, fold=0)
    if prov == "converted":
        return pendulum.instance(T.render(u, "UTC")).in_timezone(zone)
    if prov == "instance":
        return pendulum.instance(r)
    kind, pre, _ = T.classify_wall(T.naive_us(r), zone)
    if kind != "unique" or r.year < 1000:
        return pendulum.instance(r)
    return pendulum.parse("%04d-%02d-%02dT%02d:%02d:%02d.%06d" % T.fields(r), tz=zone)


def week_walk_model(x_fold, f, zone, op, ws):
    """The value K-C12-1 pins for start_of/end_of('week'): the documented composition previous()/next() = start_of('day') then
    add(days=k), then start_of/end_of('day'), where set()-based steps resolve a skipped/repeated wall time with the fold of the
    value they are applied to and add(days=..) resolves with fold=1 (create()'s default); a skipped wall time yields fold 0.
    Returns the instant, or None when a step meets a compound transition."""
    def resolve(w, fold):
        kind, i = T.expected_construct(w, zone, fold)
        return None if i is None else (i, 0 if kind == "skipped" else fold)

    def dow(fields):
        return D.date(*fields[:3]).weekday()

    def day_edge(fields, fold):
        return resolve(T.naive_us(D.datetime(*fields[:3])) + (0 if op == "start_of" else DAY - 1), fold)

    target = ws if op == "start_of" else (ws + 6) % 7
    if dow(f) == target:
        r = day_edge(f, x_fold)
        return r and r[0]
    r0 = resolve(T.naive_us(D.datetime(*f[:3])), x_fold)
    if r0 is None:
        return None
    f0 = T.fields(T.render(r0[0], zone))
    k = -((dow(f0) - target - 1) % 7 + 1) if op == "start_of" else (target - dow(f0) - 1) % 7 + 1
    r1 = resolve(T.naive_us(D.datetime(*f0)) + k * DAY, 1)
    if r1 is None:
        return None
    r2 = day_edge(T.fields(T.render(r1[0], zone)), r1[1])
    return r2 and r2[0]


def universal(tag, x, r, ru, u, f, zone, unit, op, ws, loc):
    """the clauses that hold whatever the boundary's wall time looks like"""
    if op == "start_of":
        req(ru <= u, f"{tag} is later than the value", value=loc.isoformat(), got=r.isoformat())
        nb = T.render(ru - 1, zone)
    else:
        req(ru >= u, f"{tag} is earlier than the value", value=loc.isoformat(), got=r.isoformat())
        nb = T.render(ru + 1, zone)
    req(unit_id(T.fields(r), unit, ws) == unit_id(f, unit, ws), f"{tag}: result lies in another unit than the value", value=loc.isoformat(), got=r.isoformat())
    req(unit_id(T.fields(nb), unit, ws) != unit_id(f, unit, ws), f"{tag}: the neighbouring microsecond is still in the same unit", got=r.isoformat(), neighbour=nb.isoformat())
    r2 = getattr(r, op)(unit)
    req(T.us(r2) == ru and T.fields(r2) == T.fields(r), f"{tag} is not idempotent", once=r.isoformat(), twice=r2.isoformat())


def check_one(x, u, zone, unit, op, ws):
    """returns label"""
    loc = T.render(u, zone)
    f = T.fields(loc)
    a, b = unit_bounds(f, unit, ws)
    W = a if op == "start_of" else b
    if not (T.MIN_US + 3 * DAY < W < T.MAX_US - 3 * DAY):
        raise Skip("unit boundary outside the representable range")
    r = getattr(x, op)(unit)
    tag = f"{op}({unit!r})"
    req(isinstance(r, DateTime), f"{tag}: result is not a DateTime", got=type(r).__name__)
    req(r.timezone_name == zone, f"{tag}: timezone not kept", got=r.timezone_name)
    ru = T.us(r)
    back = T.render(ru, zone)
    req(T.fields(back) == T.fields(r) and back.utcoffset() == r.utcoffset(), f"{tag}: result is not a valid local time", got=r.isoformat())
    kind, pre, gap = T.classify_wall(W, zone)
    if unit == "week":
        # start_of/end_of('week') walk through previous()/next(): midnight of x's own day, midnight of the target day and the
        # target boundary are all resolved with the fold of intermediate values (K-C12-1 acting on intermediates)
        day0 = T.naive_us(D.datetime(*f[:3]))
        target_day0 = a if op == "start_of" else b - (DAY - 1)
        fragile = [w for w in (day0, target_day0, W) if T.classify_wall(w, zone)[0] != "unique"]
        if fragile:
            good = None
            if kind == "unique":
                good = pre[0]
            elif kind == "skipped":
                good = gap[0] * US if op == "start_of" else gap[0] * US - 1      # the unit starts where the skipped stretch ends and ends just before it
            elif kind == "repeated":
                c0, c1 = T.expected_construct(W, zone, 0)[1], T.expected_construct(W, zone, 1)[1]
                if c0 is not None and c1 is not None:
                    good = c0 if op == "start_of" else c1
            if good is None:
                return "compound-boundary"
            if ru == good:
                return "week:fragile-walk:correct"
            walk = week_walk_model(x.fold, f, zone, op, ws)
            if walk is None:
                return "compound-boundary"
            req(ru == walk, f"{tag}: result is neither the week boundary nor the value the known fold mechanism (K-C12-1 acting on the intermediate "
                "start_of('day') / add(days) / end_of('day') steps) produces", got=r.isoformat(), expected=T.render(good, zone).isoformat(),
                known_mechanism_gives=T.render(walk, zone).isoformat(), fold=x.fold)
            raise Known("K-C12-1", f"{tag}: a midnight on the walk to the week boundary is skipped/repeated and was resolved by an intermediate value's fold")
    if kind == "unique":
        exp = T.render(pre[0], zone)
        req(ru == pre[0], f"{tag}: not the {'first' if op == 'start_of' else 'last'} instant of the unit containing the value", value=loc.isoformat(), got=r.isoformat(),
            expected=exp.isoformat(), fold=x.fold)
        if op == "start_of":
            req(ru <= u, f"{tag} is later than the value", got=r.isoformat())
            nb = T.render(ru - 1, zone)
        else:
            req(ru >= u, f"{tag} is earlier than the value", got=r.isoformat())
            nb = T.render(ru + 1, zone)
        req(unit_id(T.fields(nb), unit, ws) != unit_id(f, unit, ws), f"{tag}: the neighbouring microsecond is still in the same unit", neighbour=nb.isoformat())
        req(unit_id(T.fields(r), unit, ws) == unit_id(f, unit, ws), f"{tag}: result lies in another unit than the value", got=r.isoformat())
        r2 = getattr(r, op)(unit)
        req(T.us(r2) == ru and T.fields(r2) == T.fields(r), f"{tag} is not idempotent", once=r.isoformat(), twice=r2.isoformat())
        return "unique-boundary"
    if kind == "compound":
        return "compound-boundary"
    # boundary wall time skipped or repeated
    c0 = T.expected_construct(W, zone, 0)[1]
    c1 = T.expected_construct(W, zone, 1)[1]
    if c0 is None or c1 is None:
        return "compound-boundary"
    if kind == "repeated":
        good = c0 if op == "start_of" else c1
    else:
        # skipped: the first instant of the unit is the one at which the skipped stretch ends, the last one the microsecond before it begins - which is
        # the boundary moved by the gap's length only when the gap begins (ends) exactly on the boundary
        good = gap[0] * US if op == "start_of" else gap[0] * US - 1
    other = c1 if good == c0 else c0
    if ru == good:
        universal(tag, x, r, ru, u, f, zone, unit, op, ws, loc)
        return kind + "-boundary:direction-correct"
    req(ru == other, f"{tag}: boundary wall time is {kind} and the result is neither of its two resolutions", got=r.isoformat(), candidates=[T.render(c0, zone).isoformat(), T.render(c1, zone).isoformat()])
    if kind == "repeated":
        # occurrence reading: x lies in the same occurrence as the result and nothing of another unit lies in between
        lo_, hi_ = (ru, u) if ru <= u else (u, ru)
        xw = T.naive_us(loc)
        xk, xpre, _ = T.classify_wall(xw, zone)
        if unit in ("second", "minute", "hour") and xk == "repeated" and not T.transition_between(lo_, hi_, zone) and unit_id(T.fields(r), unit, ws) == unit_id(f, unit, ws) \
                and (ru <= u if op == "start_of" else ru >= u):
            # pinned by tests/datetime/test_start_end_of.py (test_start_of_on_date_after_transition, test_end_of_on_date_before_transition): inside a repeated
            # period a unit shorter than a day stays in x's own occurrence
            return "repeated-boundary:occurrence-of-x"
    pinned = T.expected_construct(W, zone, x.fold)[1]
    if ru == pinned:
        raise Known("K-C12-1", f"{tag}: {kind} boundary resolved by the instance's fold={x.fold}")
    raise Violation(f"{tag}: {kind} boundary resolved to the wrong side and not by the known fold mechanism", got=r.isoformat(), fold=x.fold)


# zones whose DST gap touches midnight: clocks jump 23:00 -> 00:00 (last hour of the day skipped) or 00:00 -> 01:00 (midnight skipped)
EDGE_OF_DAY_GAPS = ["America/Nuuk", "America/Scoresbysund", "Asia/Pyongyang", "Asia/Dhaka", "America/Sao_Paulo", "America/Havana", "Asia/Beirut", "America/Asuncion",
                    "America/Santiago", "Asia/Amman", "Asia/Damascus", "Africa/Cairo", "Asia/Tehran"]


@st.composite
def boundary_biased_instant(draw, zone):
    """instants on days whose first or last wall time is skipped/repeated, or plain near-transition / uniform ones"""
    tr = T.transitions(zone)
    k = draw(st.integers(0, 6))
    gaps = [x for x in tr if x[2] > x[1]]
    if gaps and k == 6:
        # some days away from a gap, at a TIME OF DAY inside the skipped interval: week navigation that keeps the time of day while changing the date
        # lands on a wall time that does not exist on the boundary day
        t, a, b = gaps[draw(st.integers(0, len(gaps) - 1))]
        w = (t + a) * US + draw(S.uni(0, (b - a) * US - 1)) + draw(st.integers(-7, 7)) * 86400 * US
        return S.clamp_u(w - T.offset_at(S.clamp_u(w), zone) * US)
    if tr and k <= 2:
        t, a, b = tr[draw(st.integers(0, len(tr) - 1))]
        # somewhere in the local day (or the day before/after) of the transition
        return S.clamp_u(t * US + draw(S.uni(-30 * 3600 * US, 30 * 3600 * US)))
    if k == 3:
        return draw(S.instant_near_transition(zone))
    return draw(S.uniform_instant())


@st.composite
def dt_case(draw):
    z = draw(st.one_of(S.zones(), S.zones(), st.sampled_from(EDGE_OF_DAY_GAPS)))
    return {"zone": z, "u": draw(boundary_biased_instant(z)), "prov": draw(st.sampled_from(PROVS)), "ws": draw(st.sampled_from([0, 0, 6, 5, 1, 2, 3, 4])),
            "units": draw(st.lists(st.sampled_from(UNITS), min_size=3, max_size=9, unique=True))}


class DateTimeUnits(Sub):
    name = "datetime_units"
    n = {"quick": 6000, "thorough": 150000}
    shards = {"quick": 4, "thorough": 8}
    rule = ("(zone, instant biased to days with a skipped/repeated first or last wall time, provenance, week configuration) x units x {start_of, end_of}; "
            "non-trivial: the unit boundary wall time is not unique, or the value is within a gap length of a transition, or the week does not start on Monday")

    def describe(self, case):
        return {"value": T.render(case["u"], case["zone"]).isoformat()}

    def strategy(self, ctx):
        return dt_case()

    def check(self, case, ctx):
        z, u, ws = case["zone"], case["u"], case["ws"]
        x = make(z, u, case["prov"])
        req(T.us(x) == u, "harness: value not built at the requested instant", got=x.isoformat())
        y = T.render(u, z).year
        labels = set()
        knowns = []
        pendulum.week_starts_at(pendulum.WeekDay(ws))
        pendulum.week_ends_at(pendulum.WeekDay((ws + 6) % 7))
        try:
            for unit in case["units"]:
                if unit in ("decade", "century") and not 100 <= y <= 9899:
                    continue
                if not 3 <= y <= 9997:
                    continue
                for op in ("start_of", "end_of"):
                    try:
                        labels.add(check_one(x, u, z, unit, op, ws))
                    except Known as k:
                        knowns.append(k)
                    except Skip:
                        pass
        finally:
            pendulum.week_starts_at(pendulum.MONDAY)
            pendulum.week_ends_at(pendulum.SUNDAY)
        if knowns:
            raise knowns[0]
        nt = any(not l.startswith("unique") for l in labels) or T.near_transition(u, z) is not None or ws != 0
        lab = "non-unique-boundary" if any(not l.startswith("unique") for l in labels) else "unique-boundaries"
        return nt, lab


class DateUnits(Sub):
    name = "date_units"
    backends = ("py",)
    n = {"quick": 4000, "thorough": 80000}
    shards = {"quick": 1, "thorough": 4}
    rule = "Dates x 6 units x week configurations: plain calendar arithmetic; non-trivial: non-Monday week start or first/last day of a month"

    def strategy(self, ctx):
        return st.fixed_dictionaries({"o": st.integers(D.date(100, 1, 1).toordinal(), D.date(9899, 12, 31).toordinal()), "ws": st.sampled_from([0, 0, 6, 5, 1, 2, 3, 4])})

    def check(self, case, ctx):
        d = D.date.fromordinal(case["o"])
        ws = case["ws"]
        x = pendulum.date(d.year, d.month, d.day)
        pendulum.week_starts_at(pendulum.WeekDay(ws))
        pendulum.week_ends_at(pendulum.WeekDay((ws + 6) % 7))
        try:
            for unit in DATE_UNITS:
                a, b = unit_bounds((d.year, d.month, d.day, 0, 0, 0, 0), unit, ws)
                ea, eb = T.wall_from_us(a).date(), T.wall_from_us(b).date()
                s, e = x.start_of(unit), x.end_of(unit)
                req(type(s) is Date and type(e) is Date, f"Date.start_of/end_of({unit!r}) does not return a Date")
                req((s.year, s.month, s.day) == (ea.year, ea.month, ea.day), f"Date.start_of({unit!r}) wrong", value=str(x), got=str(s), expected=str(ea))
                req((e.year, e.month, e.day) == (eb.year, eb.month, eb.day), f"Date.end_of({unit!r}) wrong", value=str(x), got=str(e), expected=str(eb))
                req(s <= x <= e, f"Date: start_of <= x <= end_of violated for {unit}")
                req(s.start_of(unit) == s and e.end_of(unit) == e, f"Date.start_of/end_of({unit!r}) not idempotent")
        finally:
            pendulum.week_starts_at(pendulum.MONDAY)
            pendulum.week_ends_at(pendulum.SUNDAY)
        return ws != 0 or d.day == 1 or d.day == calendar.monthrange(d.year, d.month)[1], "date"


class BoundaryTransitions(Sub):
    """every enumerated transition whose gap/overlap touches a day boundary, all zones"""
    name = "boundary_transitions"
    kind = "enum"
    case_timeout = 900.0
    backends = ("rust",)
    n = {"quick": 0, "thorough": 0}
    shards = {"quick": 4, "thorough": 16}
    distinct_by_construction = True
    rule = ("every enumerated transition whose skipped/repeated wall range contains a midnight or a day's last microsecond: values at noon of that day and inside/around the "
            "range x 5 provenances x {day, week, month, hour} (quick: every 4th such transition, rotating with the seed)")

    def exhaustive(self, tier):
        return tier == "thorough"

    def cases(self, ctx, shard, nshards):
        k = 0
        for i, z in enumerate(T.all_zones()):
            if i % nshards != shard:
                continue
            for t, a, b in T.transitions(z):
                lo, hi = (t + min(a, b)) * US, (t + max(a, b)) * US
                first_mid = -(-lo // DAY) * DAY
                touches = first_mid < hi or (first_mid - 1 >= lo and first_mid - 1 < hi)
                if not touches:
                    continue
                k += 1
                if not ctx.thorough and (k + ctx.seed) % 4:
                    continue
                for du in (-12 * 3600 * US, -1, 0, abs(b - a) * US, 12 * 3600 * US, 36 * 3600 * US):
                    u = t * US + du
                    if S.LO_U <= u <= S.HI_U:
                        for prov in PROVS:
                            yield {"zone": z, "u": u, "prov": prov}

    def check(self, case, ctx):
        z, u = case["zone"], case["u"]
        x = make(z, u, case["prov"])
        req(T.us(x) == u, "harness: value not built at the requested instant")
        labels = set()
        knowns = []
        for unit in ("day", "week", "month", "hour"):
            for op in ("start_of", "end_of"):
                try:
                    labels.add(check_one(x, u, z, unit, op, 0))
                except Known as k:
                    knowns.append(k)
                except Skip:
                    pass
        if knowns:
            raise knowns[0]
        return True, "non-unique-boundary" if any(not l.startswith("unique") for l in labels) else "unique-boundaries"


SUBS = [DateTimeUnits(), DateUnits(), BoundaryTransitions()]
