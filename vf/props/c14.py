"""C14 — pickle, copy and deepcopy reproduce every pendulum value exactly."""
from __future__ import annotations

import copy
import datetime as D
import pickle
import warnings

from hypothesis import strategies as st

import pendulum
from pendulum import Date, DateTime, Duration, Interval, Time
from pendulum.duration import AbsoluteDuration
from pendulum.tz.timezone import FixedTimezone, Timezone
from vf import oracle_tz as T
from vf import strategies as S
from vf.core import Sub, req

warnings.simplefilter("ignore")
US = 10**6
RULE = "round-trip oracle: same type, equal observer tuple (public accessors named in the statement), == for date/time/duration/interval values"
ASSUMPTIONS = ["the raw fold attribute is compared only through instant and UTC offset (the statement lists fields, instant and offset)"]

OPS = [f"pickle{p}" for p in range(6)] + ["copy", "deepcopy"]


def do(op, v):
    if op.startswith("pickle"):
        return pickle.loads(pickle.dumps(v, protocol=int(op[6:])))
    return copy.copy(v) if op == "copy" else copy.deepcopy(v)


def abs_flag(iv):
    """the interval's absolute flag, observed through public behaviour: an absolute interval never reports a negative length"""
    return bool(getattr(iv, "_absolute", None)) if hasattr(iv, "_absolute") else (iv.total_seconds() >= 0 and iv.invert)


def obs(v):
    if isinstance(v, DateTime):
        return ("DateTime", T.fields(v), str(v.utcoffset()), v.timezone_name, None if v.tzinfo is None else T.us(v), type(v.tzinfo).__name__,
                v.isoformat(), None if v.tzinfo is None else v.int_timestamp)
    if isinstance(v, Date):
        return ("Date", v.year, v.month, v.day)
    if isinstance(v, Time):
        return ("Time", v.hour, v.minute, v.second, v.microsecond, None if v.tzinfo is None else (type(v.tzinfo).__name__, v.tzinfo.name), str(v.utcoffset()))
    if isinstance(v, Interval):
        return ("Interval", obs(v.start), obs(v.end), abs_flag(v), v.years, v.months, v.weeks, v.remaining_days, v.hours, v.minutes, v.remaining_seconds,
                v.microseconds, v.invert, v.total_seconds(), v.in_days())
    if isinstance(v, Duration):
        return (type(v).__name__, v.years, v.months, v.weeks, v.remaining_days, v.hours, v.minutes, v.remaining_seconds, v.microseconds, v.invert,
                v.total_seconds(), D.timedelta.days.__get__(v), D.timedelta.seconds.__get__(v), D.timedelta.microseconds.__get__(v), v.in_words())
    if isinstance(v, Timezone):
        return ("Timezone", v.name, v.key, str(v.utcoffset(D.datetime(2020, 7, 1))), str(v.utcoffset(D.datetime(2020, 1, 1))))
    if isinstance(v, FixedTimezone):
        return ("FixedTimezone", v.name, v.offset, str(v.utcoffset(None)), v.tzname(None))
    raise TypeError(type(v))


def exercise(v):
    """use the value the way programs do before they store it: as an operand of arithmetic with every pendulum class that accepts it, compared,
    hashed, printed.  None of this may change it (seeded change C14-r6 edited a Duration's constructor record while adding it to a Date)."""
    probes = [pendulum.date(2020, 1, 31), pendulum.datetime(2020, 1, 31, 12, tz="Europe/Paris"), pendulum.naive(2021, 3, 1), pendulum.duration(days=2, hours=3),
              D.timedelta(hours=5), pendulum.time(10, 20, 30), 2, 0.5]
    for p in probes:
        for f in (lambda: p + v, lambda: v + p, lambda: p - v, lambda: v - p, lambda: v * p, lambda: v / p, lambda: v // p, lambda: v == p, lambda: v < p):
            try:
                f()
            except (TypeError, ValueError, OverflowError, ZeroDivisionError, pendulum.exceptions.PendulumException):
                pass
    for f in (lambda: str(v), lambda: repr(v), lambda: hash(v), lambda: -v, lambda: abs(v), lambda: v.in_words(), lambda: v.isoformat(), lambda: v.as_duration(),
              lambda: next(iter(v.range("days")), None), lambda: v.in_timezone("Asia/Tokyo"), lambda: v.start_of("day")):
        try:
            f()
        except (TypeError, ValueError, OverflowError, AttributeError, pendulum.exceptions.PendulumException):
            pass


def roundtrip(v, ops, tag):
    o = obs(v)
    exercise(v)
    req(obs(v) == o, f"{tag}: using the value (arithmetic, comparison, printing) changed it", value=repr(v), differing=[(a, b) for a, b in zip(o, obs(v)) if a != b][:3])
    for op in ops:
        w = do(op, v)
        req(type(w) is type(v), f"{tag}: {op} returns {type(w).__name__} instead of {type(v).__name__}", value=repr(v))
        o2 = obs(w)
        req(o2 == o, f"{tag}: {op} changed the value", value=repr(v), copy=repr(w), differing=[(a, b) for a, b in zip(o, o2) if a != b][:3])
        if o[0] in ("DateTime", "Date", "Time", "Duration", "AbsoluteDuration", "Interval"):
            req(w == v and not (w != v), f"{tag}: {op} result does not compare equal to the original", value=repr(v), copy=repr(w))
            if o[0] != "Interval" or True:
                req(hash(w) == hash(v), f"{tag}: {op} result hashes differently", value=repr(v))


dur_args = st.fixed_dictionaries({}, optional={"years": st.integers(-10, 10), "months": st.integers(-30, 30), "weeks": st.integers(-20, 20), "days": st.integers(-40, 40),
                                               "hours": st.integers(-50, 50), "minutes": st.integers(-100, 100), "seconds": st.integers(-1000, 1000),
                                               "microseconds": st.integers(-10**7, 10**7), "milliseconds": st.integers(-5000, 5000)})


# float arguments with a sub-microsecond part (the constructor accepts floats like timedelta does): the copy must round exactly like the original
dur_args_float = st.fixed_dictionaries({}, optional={
    "milliseconds": st.sampled_from([1.2346, 0.0007, -2.5005, 41.0005, 0.0005, 1.5]) | st.floats(-5000, 5000, allow_nan=False).map(lambda x: round(x, 4)),
    "microseconds": st.sampled_from([1.6, 0.5, -0.5, 2.5, 1.49, 999999.5]) | st.floats(-10**6, 10**6, allow_nan=False).map(lambda x: round(x, 1)),
    "seconds": st.sampled_from([3, 0.0000016, 1.0000005]) | st.integers(-100, 100), "years": st.integers(-2, 2), "weeks": st.integers(-2, 2)})


@st.composite
def spec(draw):
    k = draw(st.sampled_from(["overlap", "aware", "aware", "naive", "fixed", "date", "time", "time_tz", "duration", "duration", "absduration", "interval", "interval",
                              "date_interval", "timezone", "fixedtz", "raw_gap", "raw_gap_interval", "fixed_fold1", "stdlib_tzinfo"]))
    z = draw(S.zones())
    c = {"kind": k, "zone": z, "ops": draw(st.lists(st.sampled_from(OPS), min_size=2, max_size=4, unique=True))}
    if k == "overlap":
        zz = draw(S.zones_with_transitions())
        c["zone"] = zz
        c["u"] = draw(S.instant_near_transition(zz))
    elif k in ("raw_gap", "raw_gap_interval"):
        # the class constructor does not normalise: a wall time inside a DST gap (either fold) is a legal, if unusual, value
        zz = draw(S.zones_with_transitions())
        c["zone"] = zz
        c["w"] = draw(S.wall_near_transition(zz))
        c["fold"] = draw(st.integers(0, 1))
        c["u"] = draw(S.uniform_instant())
    elif k in ("fixed_fold1", "stdlib_tzinfo"):
        c["w"] = draw(S.uni(S.LO_U, S.HI_U))
        c["off"] = draw(S.fixed_offset_seconds())
        c["fold"] = draw(st.integers(0, 1))
    elif k in ("aware", "fixed", "time_tz"):
        c["u"] = draw(S.uniform_instant())
        c["off"] = draw(S.fixed_offset_seconds())
    elif k in ("naive", "date", "time"):
        c["w"] = draw(S.uni(S.LO_U, S.HI_U))
        c["fold"] = draw(st.integers(0, 1))
    elif k in ("duration", "absduration"):
        c["args"] = draw(st.one_of(dur_args, dur_args, S.ym_cancel_args(), dur_args_float))
    elif k in ("interval", "date_interval"):
        c["z2"] = draw(S.zones())
        c["u1"] = draw(st.one_of(S.instant_near_transition(z), S.uniform_instant()))
        c["u2"] = draw(st.one_of(S.uniform_instant(), S.uni(-10**13, 10**13)))
        c["absolute"] = draw(st.booleans())
        c["rel"] = draw(st.booleans())
    elif k == "fixedtz":
        c["off"] = draw(st.one_of(S.fixed_offset_seconds(), st.integers(-86399, 86399)))
    return c


def build(c):
    k = c["kind"]
    if k == "raw_gap":
        return DateTime(*S.wall_tuple(S.clamp_u(c["w"])), tzinfo=pendulum.timezone(c["zone"]), fold=c["fold"])
    if k == "raw_gap_interval":
        a = DateTime(*S.wall_tuple(S.clamp_u(c["w"])), tzinfo=pendulum.timezone(c["zone"]), fold=c["fold"])
        return pendulum.interval(a, pendulum.instance(T.render(S.clamp_u(c["u"]), c["zone"])))
    if k == "fixed_fold1":
        return DateTime(*S.wall_tuple(c["w"]), tzinfo=pendulum.tz.fixed_timezone(c["off"]), fold=c["fold"])
    if k == "stdlib_tzinfo":
        return DateTime(*S.wall_tuple(c["w"]), tzinfo=D.timezone(D.timedelta(seconds=c["off"])), fold=c["fold"])
    if k == "overlap":
        return pendulum.instance(T.render(c["u"], c["zone"]))
    if k == "aware":
        return pendulum.instance(T.render(c["u"], c["zone"]))
    if k == "fixed":
        return pendulum.instance(T.render_fixed(c["u"], c["off"]))
    if k == "naive":
        return pendulum.naive(*S.wall_tuple(c["w"]), fold=c["fold"])
    if k == "date":
        w = T.wall_from_us(c["w"])
        return pendulum.date(w.year, w.month, w.day)
    if k == "time":
        w = T.wall_from_us(c["w"])
        return pendulum.time(w.hour, w.minute, w.second, w.microsecond)
    if k == "time_tz":
        w = T.render_fixed(c["u"], c["off"])
        tz = pendulum.tz.fixed_timezone(c["off"]) if c["off"] % 120 else pendulum.timezone(c["zone"])
        return Time(w.hour, w.minute, w.second, w.microsecond, tzinfo=tz)
    if k == "duration":
        return pendulum.duration(**c["args"])
    if k == "absduration":
        a = {kk: v for kk, v in c["args"].items() if kk not in ("years", "months")}
        return AbsoluteDuration(**a)
    if k == "interval":
        a = pendulum.instance(T.render(c["u1"], c["zone"]))
        u2 = S.clamp_u(c["u1"] + c["u2"]) if c["rel"] and abs(c["u2"]) < 10**14 else S.clamp_u(c["u2"])
        b = pendulum.instance(T.render(u2, c["z2"]))
        return pendulum.interval(a, b, absolute=c["absolute"])
    if k == "date_interval":
        w1 = T.wall_from_us(S.clamp_u(c["u1"]))
        w2 = T.wall_from_us(S.clamp_u(c["u1"] + c["u2"]) if c["rel"] and abs(c["u2"]) < 10**14 else S.clamp_u(c["u2"]))
        return pendulum.interval(pendulum.date(w1.year, w1.month, w1.day), pendulum.date(w2.year, w2.month, w2.day), absolute=c["absolute"])
    if k == "timezone":
        return pendulum.timezone(c["zone"])
    return pendulum.tz.fixed_timezone(c["off"]) if c["off"] % 7 else FixedTimezone(c["off"], name="custom")


def nontrivial(c, v):
    k = c["kind"]
    if k == "overlap":
        kind, pre, _ = T.classify_wall(T.naive_us(v), c["zone"])
        return kind == "repeated" and T.us(v) == pre[1], "second-pass" if kind == "repeated" and T.us(v) == pre[1] else "first-pass" if kind == "repeated" else "unique"
    if k == "duration":
        a = c["args"]
        return bool(a.get("years") or a.get("months") or a.get("weeks")), "ymw" if (a.get("years") or a.get("months") or a.get("weeks")) else "plain"
    if k in ("interval", "date_interval"):
        return bool(c["absolute"] and v.invert) or v.total_seconds() < 0, ("absolute-inverted" if c["absolute"] and v.invert else "inverted" if v.total_seconds() < 0 else "forward")
    if k == "naive":
        return c["fold"] == 1, "fold1" if c["fold"] else "fold0"
    return False, k


class Values(Sub):
    ambient = True
    name = "values"
    n = {"quick": 20000, "thorough": 400000}
    shards = {"quick": 4, "thorough": 8}
    rule = ("values of every type x a subset of {pickle protocols 0-5, copy, deepcopy}; non-trivial: state rebuilt by hand - second pass of an ambiguous time, "
            "durations with years/months/weeks, inverted or absolute-inverted intervals, naive fold=1; every value is first USED (arithmetic with each pendulum class, comparison, "
            "printing, navigation) and must be unchanged by that")

    def strategy(self, ctx):
        return spec()

    def check(self, case, ctx):
        v = build(case)
        roundtrip(v, case["ops"], case["kind"])
        nt, lab = nontrivial(case, v)
        return nt, f"{case['kind']}:{lab}"


class AllOverlaps(Sub):
    ambient = True
    name = "all_overlaps"
    kind = "enum"
    case_timeout = 900.0
    backends = ("rust",)
    n = {"quick": 0, "thorough": 0}
    shards = {"quick": 4, "thorough": 16}
    distinct_by_construction = True
    rule = "every enumerated overlap of every zone: the first and the second occurrence of a repeated wall time through all 8 operations (quick: every 6th overlap, rotating with the seed)"

    def describe(self, case):
        return {"value": T.render(case["u"], case["zone"]).isoformat()}

    def exhaustive(self, tier):
        return tier == "thorough"

    def cases(self, ctx, shard, nshards):
        k = 0
        for i, z in enumerate(T.all_zones()):
            if i % nshards != shard:
                continue
            for t, a, b in T.transitions(z):
                if b >= a:
                    continue
                k += 1
                if not ctx.thorough and (k + ctx.seed) % 6:
                    continue
                span = (a - b) * US
                for u in (t * US - span, t * US - 1, t * US, t * US + span - 1, t * US - span // 2, t * US + span // 2):
                    if S.LO_U <= u <= S.HI_U:
                        yield {"zone": z, "u": u}

    def check(self, case, ctx):
        v = pendulum.instance(T.render(case["u"], case["zone"]))
        req(T.us(v) == case["u"], "harness: value not built at the instant")
        roundtrip(v, OPS, "ambiguous DateTime")
        iv = pendulum.interval(v.subtract(hours=5), v)
        roundtrip(iv, ["pickle2", "pickle5", "deepcopy"], "Interval ending on an ambiguous time")
        second = T.offset_at(case["u"], case["zone"]) != T.offset_at(case["u"] - 86400 * US, case["zone"])
        return True, "second-pass" if second else "first-pass"


SUBS = [Values(), AllOverlaps()]
