"""C08 — format() renders every token correctly and from_format() inverts it."""
from __future__ import annotations

import calendar
import datetime as D
import importlib
import os
import warnings

from hypothesis import strategies as st

import pendulum
from pendulum import DateTime
from vf import env
from vf import oracle_tz as T
from vf import strategies as S
from vf.core import Skip, Sub, Violation, req

warnings.simplefilter("ignore")
US = 10**6
RULE = ("format oracle: independent renderer from the native twin (integer arithmetic, isoweekday, timetuple) and the locale's own data tables; "
        "from_format oracle: round trip from_format(dt.format(fmt), fmt) == dt on fields and offset")
ASSUMPTIONS = ["zones/offsets with whole-minute UTC offsets only (the Z/ZZ tokens cannot express seconds)", "locale data tables are read as data",
               "partial-date defaulting (year only -> month 1 ...) is exercised and recorded, not asserted beyond 'fields absent from the format come from now'"]
try:
    from pendulum.formatting import Formatter
    FORMATTER = Formatter()
except Exception as e:  # noqa: BLE001
    raise env.HarnessError(f"cannot obtain pendulum's Formatter: {e}")
LOCALES = sorted(d for d in os.listdir(os.path.join(env.REPO, "src", "pendulum", "locales"))
                 if os.path.isdir(os.path.join(env.REPO, "src", "pendulum", "locales", d)) and not d.startswith("_"))


def data(loc):
    return importlib.import_module(f"pendulum.locales.{loc}.locale").locale


def get(d, path):
    for p in path.split("."):
        if not isinstance(d, dict) or p not in d:
            return None
        d = d[p]
    return d


def ordinalize(L, n):
    suf = get(L, "custom.ordinal." + L["ordinal"](n))
    return f"{n}{suf}" if suf else f"{n}"


def expected_tokens(dt, L):
    """token -> expected rendering, computed from the native twin (never through pendulum's formatter)"""
    n = D.datetime(dt.year, dt.month, dt.day, dt.hour, dt.minute, dt.second, dt.microsecond, tzinfo=dt.tzinfo, fold=dt.fold)
    off = n.utcoffset()
    tot = T.td_us(off) // US
    sg = "+" if tot >= 0 else "-"
    oh, om = divmod(abs(tot) // 60, 60)
    its = T.us(n) // US
    doy = n.toordinal() - D.date(n.year, 1, 1).toordinal() + 1
    wd = n.weekday()
    first_day = get(L, "translations.week_data.first_day")
    e = {
        "YYYY": "%d" % n.year, "YY": ("%d" % n.year)[2:], "Y": "%d" % n.year, "Q": str((n.month - 1) // 3 + 1),
        "MM": "%02d" % n.month, "M": str(n.month), "DD": "%02d" % n.day, "D": str(n.day), "DDDD": "%03d" % doy, "DDD": str(doy),
        "d": str(n.isoweekday() % 7), "E": str(n.isoweekday()),
        "HH": "%02d" % n.hour, "H": str(n.hour), "hh": "%02d" % (n.hour % 12 or 12), "h": str(n.hour % 12 or 12),
        "mm": "%02d" % n.minute, "m": str(n.minute), "ss": "%02d" % n.second, "s": str(n.second),
        "Z": f"{sg}{oh:02d}:{om:02d}", "ZZ": f"{sg}{oh:02d}{om:02d}", "z": dt.timezone_name, "zz": n.tzname(),
        "X": str(its), "x": str(its * 1000 + n.microsecond // 1000),
        "MMMM": get(L, "translations.months.wide")[n.month], "MMM": get(L, "translations.months.abbreviated")[n.month],
        "dddd": get(L, "translations.days.wide")[wd], "ddd": get(L, "translations.days.abbreviated")[wd], "dd": get(L, "translations.days.short")[wd],
        "A": get(L, "translations.day_periods." + ("pm" if n.hour >= 12 else "am")),
        "Do": ordinalize(L, n.day), "Mo": ordinalize(L, n.month), "Qo": ordinalize(L, (n.month - 1) // 3 + 1), "DDDo": ordinalize(L, doy),
        "do": ordinalize(L, n.isoweekday() % 7), "wo": ordinalize(L, n.isocalendar()[1]),
    }
    for w in range(1, 7):
        e["S" * w] = ("%06d" % n.microsecond)[:w]
    return e


@st.composite
def value(draw, named_only=False):
    y = draw(st.one_of(st.integers(1000, 9999), st.sampled_from([1000, 1999, 2000, 2068, 2069, 9999, 2024, 2023])))
    if draw(st.integers(0, 3)) == 0:
        # calendar boundaries: first/last day of the year, leap day and its neighbours, month ends
        m, d = draw(st.sampled_from([(1, 1), (12, 31), (12, 30), (2, 28), (2, 29), (3, 1), (1, 31), (4, 30), (12, 1)]))
        d = min(d, calendar.monthrange(y, m)[1])
    else:
        m = draw(st.integers(1, 12))
        d = draw(st.integers(1, calendar.monthrange(y, m)[1]))
    f = [y, m, d, draw(st.sampled_from([0, 11, 12, 13, 23]) | st.integers(0, 23)), draw(st.integers(0, 59)), draw(st.integers(0, 59)),
         draw(st.sampled_from([0, 5, 999999, 100000, 12345]) | st.integers(0, 999999))]
    if named_only or draw(st.booleans()):
        tz = draw(st.one_of(S.zones(), st.sampled_from(["America/Argentina/Buenos_Aires", "America/Indiana/Knox", "America/North_Dakota/New_Salem", "Asia/Kolkata", "UTC"])))
    else:
        tz = draw(S.fixed_offset_seconds())
    return {"f": f, "tz": tz}


def build(v):
    tz = v["tz"] if isinstance(v["tz"], str) else pendulum.tz.fixed_timezone(v["tz"])
    dt = pendulum.datetime(*v["f"], tz=tz)
    if T.td_us(dt.utcoffset()) % (60 * US):
        raise Skip("UTC offset with seconds")
    return dt


SEPS = [" ", "-", "/", ":", ".", ", ", "T", " | ", "_"]
ESCAPES = ["[at]", "[YYYY]", "[T]", "[of the]", "[Z]"]
PLAIN_TOKENS = ["YYYY", "YY", "Y", "Q", "MM", "M", "DD", "D", "DDDD", "DDD", "d", "E", "HH", "H", "hh", "h", "mm", "m", "ss", "s", "S", "SS", "SSS", "SSSS", "SSSSS",
                "SSSSSS", "A", "Z", "ZZ", "z", "zz", "X", "x", "MMMM", "MMM", "dddd", "ddd", "dd", "Do", "Mo", "Qo", "DDDo", "do", "wo"]


class Tokens(Sub):
    ambient = True
    name = "format_tokens"
    backends = ("py",)
    n = {"quick": 5000, "thorough": 120000}
    shards = {"quick": 4, "thorough": 8}
    rule = ("DateTime (years 1000-9999, any zone or whole-minute fixed offset) x locale: every documented token individually, a random token sequence with separators and "
            "[escapes], and the named to_*_string() compositions; non-trivial: hour in {0, 12, 13+}, or microsecond with leading zeros, or negative/half-hour offset, or non-English locale")

    def strategy(self, ctx):
        return st.fixed_dictionaries({"v": value(), "locale": st.sampled_from(LOCALES), "seq": st.lists(st.tuples(st.sampled_from(PLAIN_TOKENS + ESCAPES), st.sampled_from(SEPS)),
                                                                                                     min_size=1, max_size=8)})

    def check(self, case, ctx):
        dt = build(case["v"])
        loc = case["locale"]
        L = data(loc)
        exp = expected_tokens(dt, L)
        for tok, e in exp.items():
            g = dt.format(tok, locale=loc)
            req(g == e, f"format({tok!r}, locale={loc!r}) renders the wrong value", value=dt.isoformat(), got=g, expected=e)
        first_day = get(L, "translations.week_data.first_day")
        if first_day is not None:
            req(dt.format("e", locale=loc) == str((dt.weekday() - first_day) % 7), "format('e') is not the locale's day-of-week index", got=dt.format("e", locale=loc))
        fmt, want = "", ""
        for tok, sep in case["seq"]:
            fmt += tok + sep
            want += (tok[1:-1] if tok.startswith("[") else exp[tok]) + sep
        g = dt.format(fmt, locale=loc)
        req(g == want, "format() of a token sequence is not the concatenation of the token renderings (escapes verbatim)", fmt=fmt, got=g, expected=want)
        en = expected_tokens(dt, data("en"))
        comp = {
            "to_atom_string": f"{en['YYYY']}-{en['MM']}-{en['DD']}T{en['HH']}:{en['mm']}:{en['ss']}{en['Z']}",
            "to_w3c_string": f"{en['YYYY']}-{en['MM']}-{en['DD']}T{en['HH']}:{en['mm']}:{en['ss']}{en['Z']}",
            "to_cookie_string": f"{en['dddd']}, {en['DD']}-{en['MMM']}-{en['YYYY']} {en['HH']}:{en['mm']}:{en['ss']} {en['zz']}",
            "to_rfc822_string": f"{en['ddd']}, {en['DD']} {en['MMM']} {en['YY']} {en['HH']}:{en['mm']}:{en['ss']} {en['ZZ']}",
            "to_rfc850_string": f"{en['dddd']}, {en['DD']}-{en['MMM']}-{en['YY']} {en['HH']}:{en['mm']}:{en['ss']} {en['zz']}",
            "to_rfc1036_string": f"{en['ddd']}, {en['DD']} {en['MMM']} {en['YY']} {en['HH']}:{en['mm']}:{en['ss']} {en['ZZ']}",
            "to_rfc1123_string": f"{en['ddd']}, {en['DD']} {en['MMM']} {en['YYYY']} {en['HH']}:{en['mm']}:{en['ss']} {en['ZZ']}",
            "to_rfc2822_string": f"{en['ddd']}, {en['DD']} {en['MMM']} {en['YYYY']} {en['HH']}:{en['mm']}:{en['ss']} {en['ZZ']}",
            "to_rss_string": f"{en['ddd']}, {en['DD']} {en['MMM']} {en['YYYY']} {en['HH']}:{en['mm']}:{en['ss']} {en['ZZ']}",
            "to_time_string": f"{en['HH']}:{en['mm']}:{en['ss']}", "to_date_string": f"{en['YYYY']}-{en['MM']}-{en['DD']}",
            "to_datetime_string": f"{en['YYYY']}-{en['MM']}-{en['DD']} {en['HH']}:{en['mm']}:{en['ss']}",
            "to_day_datetime_string": f"{en['ddd']}, {en['MMM']} {en['D']}, {en['YYYY']} {en['h']}:{en['mm']} {en['A']}",
            "to_formatted_date_string": f"{en['MMM']} {en['DD']}, {en['YYYY']}",
        }
        iso = f"{en['YYYY']}-{en['MM']}-{en['DD']}T{en['HH']}:{en['mm']}:{en['ss']}" + (f".{en['SSSSSS']}" if dt.microsecond else "") + en["Z"]
        comp["to_rfc3339_string"] = iso
        comp["to_iso8601_string"] = iso[:-6] + "Z" if dt.timezone_name == "UTC" else iso
        for nm, e in comp.items():
            g = getattr(dt, nm)()
            req(g == e, f"{nm}() is not the documented composition", value=dt.isoformat(), got=g, expected=e)
        # the named helpers are fixed (English / numeric) compositions: the process-wide default locale must not leak into them
        pendulum.set_locale(loc)
        try:
            for nm, e in comp.items():
                g = getattr(dt, nm)()
                req(g == e, f"{nm}() changes with the default locale (set_locale({loc!r}))", value=dt.isoformat(), got=g, expected=e)
            req(dt.format(fmt) == want, "format() without locale= does not use the default locale set by set_locale()", fmt=fmt, got=dt.format(fmt), expected=want)
        finally:
            pendulum.set_locale("en")
        tot = T.td_us(dt.utcoffset()) // US
        nt = dt.hour in (0, 12) or dt.hour >= 13 or 0 < dt.microsecond < 100000 or tot < 0 or tot % 3600 != 0 or not loc.startswith("en")
        return nt, loc


DATE_PARTS = ["YYYY-MM-DD", "DD/MM/YYYY", "YYYY MM DD", "YYYY-DDDD", "D.M.YYYY", "YYYY MMMM D", "ddd, DD MMM YYYY", "dddd D MMMM YYYY", "Do MMMM YYYY", "YYYY[T]MM[T]DD", "YY-MM-DD",
              "[Le] D.M.YYYY", "[day] DDDD [of the year] YYYY", "YYYY-MM-DD [(ISO)]", "[YYYY:] YYYY [MM:] MM [DD:] DD"]
TIME_PARTS = ["HH:mm:ss.SSSSSS", "H:m:s.SSSSSS", "hh:mm:ss.SSSSSS A", "h:mm:ss.SSSSSS A", "HH.mm.ss SSSSSS"]
ZONE_PARTS = ["Z", "ZZ", "z"]


class RoundTrip(Sub):
    ambient = True
    name = "from_format_roundtrip"
    n = {"quick": 6000, "thorough": 150000}
    shards = {"quick": 3, "thorough": 8}
    rule = ("formats built from a grammar guaranteeing full date + time + 6-digit fraction + (offset Z/ZZ | zone name z for named zones): from_format(dt.format(fmt), fmt) has dt's "
            "fields and offset (and zone name for z); a mismatching string raises ValueError; non-trivial: zone name with 3 parts, 12-hour clock, day-of-year, or non-UTC offset")

    def strategy(self, ctx):
        return st.fixed_dictionaries({"v": value(), "date": st.sampled_from(DATE_PARTS), "time": st.sampled_from(TIME_PARTS), "zone": st.sampled_from(ZONE_PARTS),
                                      "sep": st.sampled_from([" ", "T", " @ ", ", ", " [at] ", " [o'clock: Hh] ", "\\a\\t "]), "locale": st.sampled_from(["en", "en", "fr", "de", "ru", "pt_br", "ja"])})

    def check(self, case, ctx):
        dt = build(case["v"])
        zone_tok = case["zone"]
        if zone_tok == "z" and not isinstance(case["v"]["tz"], str):
            zone_tok = "Z"
        loc = case["locale"]
        date_part = case["date"]
        if "YY-" in date_part and "YYYY" not in date_part and not 1969 <= dt.year <= 2068:
            date_part = "YYYY-MM-DD"
        if loc != "en" and any(t in date_part for t in ("ddd", "MMM", "Do")):
            if loc == "ja" or "Do" in date_part:
                date_part = "YYYY-MM-DD"
        fmt = date_part + case["sep"] + case["time"] + " " + zone_tok
        s = dt.format(fmt, locale=loc)
        r = pendulum.from_format(s, fmt, locale=loc)
        req(type(r) is DateTime, "from_format does not return a DateTime")
        req(T.fields(r) == T.fields(dt) and r.utcoffset() == dt.utcoffset(), "from_format(dt.format(fmt), fmt) does not give back dt's fields and offset",
            fmt=fmt, string=s, got=r.isoformat(), expected=dt.isoformat(), zone=dt.timezone_name)
        if zone_tok == "z":
            req(r.timezone_name == dt.timezone_name, "from_format with 'z' does not restore the zone name", got=r.timezone_name, expected=dt.timezone_name)
        # a string that does not match the format must be rejected
        bads = [s + "x", s[:-1] if zone_tok != "z" else s + "/", "x" + s]
        # padding is not part of the format: blanks, tabs and line ends around the text do not match it
        bads += [s + " ", " " + s, s + "\n", "\n" + s, s + "\t", s + "\r\n", s + "\n\n"]
        # ... unless the format says so: literal whitespace at the outer ends of a format is part of it and survives the round trip
        pad_l, pad_r = [("", ""), (" ", ""), ("", " "), ("[ ]", "[\t]"), ("\n", "\n"), ("  ", "[ ] ")][(dt.microsecond + dt.second) % 6]
        if pad_l or pad_r:
            fmt_p = pad_l + fmt + pad_r
            s_p = dt.format(fmt_p, locale=loc)
            rp = pendulum.from_format(s_p, fmt_p, locale=loc)
            req(T.fields(rp) == T.fields(dt) and rp.utcoffset() == dt.utcoffset(), "from_format(dt.format(fmt), fmt) fails for a format with literal whitespace at its ends",
                fmt=fmt_p, string=s_p, got=rp.isoformat(), expected=dt.isoformat())
        if zone_tok == "z":
            # strings whose zone part looks like a zone but is not one: a bare region / directory of the tz database, an unknown city
            zn = dt.timezone_name
            stem = s[: len(s) - len(zn)]
            if s.endswith(zn):
                bads += [stem + zn.split("/")[0] if "/" in zn else stem + "Nowhere", stem + "/".join(zn.split("/")[:-1]) if zn.count("/") >= 1 else stem + "Europe",
                         stem + zn + "_City", stem + "America/Argentina", stem + "Etc"]
        for bad in bads:
            if bad == s:
                continue
            try:
                r2 = pendulum.from_format(bad, fmt, locale=loc)
            except ValueError:
                continue
            raise Violation("from_format accepts a string that does not match the format", fmt=fmt, string=bad, got=r2.isoformat())
        nt = (isinstance(case["v"]["tz"], str) and case["v"]["tz"].count("/") == 2) or " A" in case["time"] or "DDDD" in date_part or dt.utcoffset() != D.timedelta(0)
        return nt, ("named" if zone_tok == "z" else "offset") + ":" + ("12h" if " A" in case["time"] else "24h")


class Names(Sub):
    ambient = True
    name = "localized_names_roundtrip"
    kind = "enum"
    case_timeout = 900.0
    backends = ("py",)
    n = {"quick": 0, "thorough": 0}
    shards = {"quick": 9, "thorough": 9}
    distinct_by_construction = True
    rule = "every locale x 12 months x 7 weekdays: from_format(dt.format(fmt, locale), fmt, locale=locale) restores the date for wide and abbreviated month and day names; every case non-trivial"

    def exhaustive(self, tier):
        return True

    def cases(self, ctx, shard, nshards):
        for i, loc in enumerate(LOCALES):
            if i % nshards == shard:
                for m in range(1, 13):
                    yield {"locale": loc, "month": m}

    def check(self, case, ctx):
        loc, m = case["locale"], case["month"]
        n = 0
        for day in range(8, 15):
            dt = pendulum.datetime(2021, m, day, 14, 5, 6)
            for fmt in ("dddd D MMMM YYYY HH:mm:ss", "ddd D MMM YYYY HH:mm:ss", "D MMMM YYYY", "MMM D YYYY", "YYYY-MM-DD dddd"):
                s = dt.format(fmt, locale=loc)
                r = pendulum.from_format(s, fmt, locale=loc)
                want = T.fields(dt) if "HH" in fmt else T.fields(dt)[:3] + (0, 0, 0, 0)
                req(T.fields(r) == want, f"localized names do not round-trip in locale {loc}", fmt=fmt, string=s, got=r.isoformat(), expected=dt.isoformat())
                n += 1
                # the same through the process-wide default locale (set_locale), switched from case to case
                pendulum.set_locale(loc)
                try:
                    s2 = dt.format(fmt)
                    req(s2 == s, f"format() under set_locale({loc!r}) differs from format(locale={loc!r})", got=s2, expected=s)
                    r2 = pendulum.from_format(s2, fmt)
                    req(T.fields(r2) == want, f"from_format under set_locale({loc!r}) does not round-trip", fmt=fmt, string=s2, got=r2.isoformat())
                finally:
                    pendulum.set_locale("en")
        # the localized ordinal token for EVERY day of the month (each plural/ordinal class of the locale, and locales that have no ordinal table)
        for day in range(1, calendar.monthrange(2021, m)[1] + 1):
            dt = pendulum.datetime(2021, m, day, 14, 5, 6)
            for fmt in ("Do MMMM YYYY HH:mm:ss", "dddd Do MMM YYYY"):
                s = dt.format(fmt, locale=loc)
                r = pendulum.from_format(s, fmt, locale=loc)
                want = T.fields(dt) if "HH" in fmt else T.fields(dt)[:3] + (0, 0, 0, 0)
                req(T.fields(r) == want, f"the ordinal token Do does not round-trip in locale {loc}", fmt=fmt, string=s, got=r.isoformat(), expected=dt.isoformat())
                n += 1
        ctx.cache["n"] = ctx.cache.get("n", 0) + n
        ctx.cache["evidence_extra"] = {"inner_evaluations": ctx.cache["n"], "inner_nontrivial": ctx.cache["n"]}
        return False, loc


class NowDefaults(Sub):
    ambient = True
    name = "fields_from_now"
    backends = ("py",)
    n = {"quick": 3000, "thorough": 50000}
    shards = {"quick": 1, "thorough": 4}
    rule = "time-only formats: the date comes from the supplied 'now' (Formatter.parse called with a generated now); non-trivial: always (now differs from the parsed value)"

    def strategy(self, ctx):
        return st.fixed_dictionaries({"v": value(), "now": value(), "fmt": st.sampled_from(["HH:mm:ss", "HH:mm", "h:mm A", "HH:mm:ss.SSSSSS", "H[h]mm"])})

    def check(self, case, ctx):
        dt, now = build(case["v"]), build(case["now"])
        fmt = case["fmt"]
        s = dt.format(fmt)
        parts = FORMATTER.parse(s, fmt, now)
        req((parts["year"], parts["month"], parts["day"]) == (now.year, now.month, now.day), "fields absent from the format are not filled from the supplied now",
            fmt=fmt, string=s, got=[parts["year"], parts["month"], parts["day"]], now=now.isoformat())
        req(parts["hour"] == dt.hour and parts["minute"] == dt.minute, "time fields wrong", got=parts)
        if "ss" in fmt:
            req(parts["second"] == dt.second, "seconds wrong")
        else:
            req(parts["second"] == 0, "absent seconds are not zero")
        if "SSSSSS" in fmt:
            req(parts["microsecond"] == dt.microsecond, "microseconds wrong")
        return True, fmt


SUBS = [Tokens(), RoundTrip(), Names(), NowDefaults()]
