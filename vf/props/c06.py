"""C06 — Interval components are canonical and rebuild the end from the start."""
from __future__ import annotations

import calendar
import datetime as D
import warnings

from hypothesis import strategies as st

import pendulum
import pendulum._helpers as PY
import pendulum._pendulum as RS
from pendulum import Interval
from vf import oracle_tz as T
from vf import strategies as S
from vf.core import Skip, Sub, Violation, req

warnings.simplefilter("ignore")
US = 10**6
EXACT = 2**33 * US
RULE = ("validity oracle: component ranges + add-back (reference calendar model: months arithmetic, clamp, timedelta) + "
        "Python<->Rust differential; any decomposition satisfying ranges and add-back is accepted")
ASSUMPTIONS = ["same-zone pairs with unequal UTC offsets or an ambiguous end are outside the property's stated domain: generated, counted, not asserted",
               "add-back through the public API uses DateTime.add(), itself checked by C03/C04"]


def comp(p):
    return (p.years, p.months, p.days, p.hours, p.minutes, p.seconds, p.microseconds)


def model_add(a: D.datetime, c) -> D.datetime:
    tm = a.year * 12 + a.month - 1 + c[0] * 12 + c[1]
    y, m0 = divmod(tm, 12)
    d = min(a.day, calendar.monthrange(y, m0 + 1)[1])
    return a.replace(year=y, month=m0 + 1, day=d) + D.timedelta(days=c[2], hours=c[3], minutes=c[4], seconds=c[5], microseconds=c[6])


def check_components(tag, c, a, b):
    """c = (years, months, days, hours, minutes, seconds, us) for naive/wall a <= b"""
    req(c[0] >= 0 and 0 <= c[1] <= 11 and 0 <= c[2] <= 30 and 0 <= c[3] <= 23 and 0 <= c[4] <= 59 and 0 <= c[5] <= 59 and 0 <= c[6] <= 999999,
        f"{tag}: components out of canonical range", components=c, a=a.isoformat(), b=b.isoformat())
    try:
        back = model_add(a, c)
    except (OverflowError, ValueError):
        raise Violation(f"{tag}: components overflow when added back", components=c)
    req(back == b, f"{tag}: start + components != end", components=c, a=a.isoformat(), b=b.isoformat(), rebuilt=back.isoformat())


def dt_of(d):
    return D.datetime(d.year, d.month, d.day)


class DatePairs(Sub):
    ambient = True
    """exhaustive ordered date pairs in windows containing a leap year, both helper backends, direct calls"""
    name = "date_pairs_exhaustive"
    kind = "enum"
    case_timeout = 900.0
    backends = ("rust",)
    n = {"quick": 0, "thorough": 0}
    shards = {"quick": 16, "thorough": 16}
    distinct_by_construction = True
    rule = ("every ordered pair of dates (a <= b, span <= 800 days) inside a 3-year window containing a leap year "
            "(quick: 2003-2005; thorough: also 1899-1901, 1999-2001, 2099-2101, 2023-2025); non-trivial: day or month borrow (b.day < a.day)")

    def exhaustive(self, tier):
        return True

    def cases(self, ctx, shard, nshards):
        windows = [2003] + ([1899, 1999, 2099, 2023] if ctx.thorough else [])
        for y0 in windows:
            start = D.date(y0, 1, 1)
            ndays = (D.date(y0 + 3, 1, 1) - start).days
            for i in range(shard, ndays, nshards):
                yield {"start": [y0, 1, 1], "i": i, "n": ndays}

    def check(self, case, ctx):
        # one case = one start date against every later date of the window (keeps per-case overhead low)
        start = D.date(*case["start"])
        a = start + D.timedelta(days=case["i"])
        nt = 0
        n = 0
        for j in range(case["i"], min(case["n"], case["i"] + 801)):
            b = start + D.timedelta(days=j)
            p = PY.precise_diff(a, b)
            r = RS.precise_diff(a, b)
            cp, cr = comp(p), comp(r)
            req(cp == cr and p.total_days == r.total_days, "helpers disagree on a date pair", a=str(a), b=str(b), python=cp, rust=cr)
            check_components("precise_diff(date, date)", cp, dt_of(a), dt_of(b))
            req(p.total_days == j - case["i"], "total_days wrong", got=p.total_days)
            if j > case["i"]:
                q = PY.precise_diff(b, a)
                req(comp(q) == tuple(-v for v in cp) and q.total_days == -p.total_days, "reversed pair is not the negated components", fwd=cp, rev=comp(q))
                q = RS.precise_diff(b, a)
                req(comp(q) == tuple(-v for v in cp), "reversed pair is not the negated components (rust)", fwd=cp, rev=comp(q))
            n += 1
            nt += b.day < a.day
        ctx.cache["pairs"] = ctx.cache.get("pairs", 0) + n
        ctx.cache["pairs_nt"] = ctx.cache.get("pairs_nt", 0) + nt
        ctx.cache["evidence_extra"] = {"inner_evaluations": ctx.cache["pairs"], "inner_nontrivial": ctx.cache["pairs_nt"]}
        return False, "start-date-row"


tod = st.one_of(st.just(0), S.uni(0, 86400 * US - 1),
                st.builds(lambda h, m, s, u: ((h * 60 + m) * 60 + s) * US + u, st.sampled_from([0, 1, 12, 23]), st.sampled_from([0, 1, 59]),
                          st.sampled_from([0, 1, 59]), st.sampled_from([0, 1, 999999])))


@st.composite
def wall_pair(draw):
    y = draw(st.one_of(st.sampled_from([2, 4, 100, 400, 1900, 2000, 2023, 2024, 9990]), st.integers(2, 9990)))
    m = draw(st.integers(1, 12))
    d = min(draw(st.one_of(st.sampled_from([1, 2, 28, 29, 30, 31]), st.integers(1, 31))), calendar.monthrange(y, m)[1])
    w1 = T.naive_us(D.datetime(y, m, d)) + draw(tod)
    k = draw(st.integers(0, 4))
    if k == 0:
        span = draw(S.uni(0, 3 * 86400 * US))
    elif k == 1:
        span = draw(st.integers(0, 800)) * 86400 * US + draw(S.uni(-86400 * US, 86400 * US))
    elif k == 2:
        span = draw(st.integers(0, 9000 * 366)) * 86400 * US + draw(tod)
    elif k == 3:
        y2 = min(9996, y + draw(st.integers(0, 5)))
        m2 = draw(st.integers(1, 12))
        d2 = min(draw(st.sampled_from([1, 2, 28, 29, 30, 31])), calendar.monthrange(y2, m2)[1])
        span = T.naive_us(D.datetime(y2, m2, d2)) + draw(tod) - w1
    else:
        span = draw(st.sampled_from([2**33 * US - 1, 2**33 * US, 2**33 * US + 1, 10**15 + 7]))
    w1, w2 = sorted((S.clamp_u(w1), S.clamp_u(w1 + span)))
    return w1, w2


@st.composite
def dt_pair_case(draw):
    w1, w2 = draw(wall_pair())
    kind = draw(st.sampled_from(["utc", "naive", "fixed", "fixed_distinct", "zone", "zone", "date", "helpers"]))
    return {"kind": kind, "w1": w1, "w2": w2, "off": draw(S.fixed_offset_seconds()), "zone": draw(S.zones())}


def interval_components(iv):
    return (iv.years, iv.months, iv.weeks, iv.remaining_days, iv.hours, iv.minutes, iv.remaining_seconds, iv.microseconds)


class DateTimePairs(Sub):
    ambient = True
    name = "datetime_pairs"
    n = {"quick": 20000, "thorough": 400000}
    shards = {"quick": 3, "thorough": 8}
    rule = ("random a <= b in UTC / fixed offset / naive / named zone with equal offsets and a unique end / Date, through Interval and through "
            "the helpers directly; non-trivial: day, month or time-of-day borrow occurred")

    def describe(self, case):
        return {"a_wall": T.wall_from_us(case["w1"]).isoformat(), "b_wall": T.wall_from_us(case["w2"]).isoformat(), "kind": case["kind"]}

    def strategy(self, ctx):
        return dt_pair_case()

    def check(self, case, ctx):
        kind, w1, w2 = case["kind"], case["w1"], case["w2"]
        wa, wb = T.wall_from_us(w1), T.wall_from_us(w2)
        borrow = wb.day < wa.day or wb.time() < wa.time()
        if kind == "helpers":
            p, r = PY.precise_diff(wa, wb), RS.precise_diff(wa, wb)
            req(comp(p) == comp(r) and p.total_days == r.total_days, "helpers disagree on a naive datetime pair", a=wa.isoformat(), b=wb.isoformat(),
                python=comp(p), rust=comp(r))
            check_components("precise_diff(naive, naive)", comp(p), wa, wb)
            q = RS.precise_diff(wb, wa)
            req(comp(q) == tuple(-v for v in comp(p)), "reversed pair is not negated (rust)", fwd=comp(p), rev=comp(q))
            q = PY.precise_diff(wb, wa)
            req(comp(q) == tuple(-v for v in comp(p)), "reversed pair is not negated (python)", fwd=comp(p), rev=comp(q))
            return borrow, "helpers-direct"
        if kind == "date":
            a, b = pendulum.date(wa.year, wa.month, wa.day), pendulum.date(wb.year, wb.month, wb.day)
            wa, wb = dt_of(wa), dt_of(wb)
            borrow = wb.day < wa.day
        elif kind == "naive":
            a, b = pendulum.naive(*T.fields(wa)), pendulum.naive(*T.fields(wb))
        elif kind == "utc":
            a, b = pendulum.datetime(*T.fields(wa)), pendulum.datetime(*T.fields(wb))
        elif kind == "fixed":
            tz = pendulum.tz.fixed_timezone(case["off"])
            a, b = pendulum.datetime(*T.fields(wa), tz=tz), pendulum.datetime(*T.fields(wb), tz=tz)
        elif kind == "fixed_distinct":
            # the same fixed offset on two separate tzinfo objects (what two parsed strings, or a value and its pickled copy, carry): equal zones, not identical ones
            import pickle
            tza = pendulum.tz.timezone.FixedTimezone(case["off"])
            tzb = pickle.loads(pickle.dumps(tza)) if case["off"] % 2 else pendulum.tz.timezone.FixedTimezone(case["off"])
            req(tza is not tzb, "harness: the two tzinfo objects are one")
            a, b = pendulum.datetime(*T.fields(wa), tz=tza), pendulum.datetime(*T.fields(wb), tz=tzb)
            kind = "fixed"
        else:
            z = case["zone"]
            ka, ua = T.expected_construct(w1, z, 1)
            kb, ub = T.expected_construct(w2, z, 1)
            if ka != "unique" or kb != "unique":
                raise Skip("zone pair: an endpoint's wall time is skipped or ambiguous (outside the stated domain)")
            if T.offset_at(ua, z) != T.offset_at(ub, z):
                raise Skip("zone pair straddles a net offset change (outside the stated domain)")
            a, b = pendulum.datetime(*T.fields(wa), tz=z), pendulum.datetime(*T.fields(wb), tz=z)
        iv = b - a
        req(isinstance(iv, Interval), "b - a is not an Interval")
        c = interval_components(iv)
        req(all(v >= 0 for v in c), "forward interval has a negative component", components=c)
        req(c[1] <= 11 and c[2] * 7 + c[3] <= 30 and c[3] <= 6 and c[4] <= 23 and c[5] <= 59 and c[6] <= 59 and c[7] <= 999999,
            "interval components out of canonical range", components=c, a=str(a), b=str(b))
        req(iv.in_months() == 12 * iv.years + iv.months, "in_months() != 12*years + months")
        req(iv.in_years() == iv.years, "in_years() != years")
        span = w2 - w1
        if kind == "date":
            req(c[4:] == (0, 0, 0, 0), "date interval has time components", components=c)
            rebuilt = a + iv
            rebuilt2 = a.add(years=c[0], months=c[1], weeks=c[2], days=c[3])
            ok = lambda r: (r.year, r.month, r.day) == (b.year, b.month, b.day)
            req(ok(rebuilt) and ok(rebuilt2), "a + (b - a) != b for dates", a=str(a), b=str(b), components=c, rebuilt=str(rebuilt))
        else:
            check_components("Interval components", (c[0], c[1], c[2] * 7 + c[3], c[4], c[5], c[6], c[7]), wa, wb)
            rebuilt = a + iv
            rebuilt2 = a.add(years=c[0], months=c[1], weeks=c[2], days=c[3], hours=c[4], minutes=c[5], seconds=c[6], microseconds=c[7])
            for nm, r in (("a + (b - a)", rebuilt), ("a.add(**components)", rebuilt2)):
                d = abs(T.naive_us(r) - w2)
                req(d == 0 and r.utcoffset() == b.utcoffset(), f"{nm} != b", a=str(a), b=str(b), components=c, rebuilt=str(r), off_by_us=d)
        if kind in ("utc", "fixed", "zone") and span > 0:
            # the same two instants rendered in another fixed offset, decomposed right afterwards in the same process: the
            # calendar borrow falls differently, so anything remembered from the first decomposition must not leak
            off2 = 18000 if (kind == "utc" or case["off"] == 0) else 0
            if kind == "fixed" and case["off"] == 18000:
                off2 = -12600
            a2, b2 = pendulum.instance(T.render_fixed(T.us(a), off2)), pendulum.instance(T.render_fixed(T.us(b), off2))
            iv2 = b2 - a2
            c2 = interval_components(iv2)
            check_components("Interval components (same instants, other fixed offset)", (c2[0], c2[1], c2[2] * 7 + c2[3], c2[4], c2[5], c2[6], c2[7]),
                             D.datetime(*T.fields(a2)), D.datetime(*T.fields(b2)))
            r2 = a2 + iv2
            req(T.us(r2) == T.us(b2), "a + (b - a) != b for the same instants rendered in another fixed offset", a=str(a2), b=str(b2), components=c2, rebuilt=str(r2))
        if span > 0:
            rc = interval_components(a - b)
            exp = tuple(-v for v in c)
            req(rc == exp, "reversed interval does not report the negated components", forward=c, reversed=rc)
        # every way of obtaining the interval of the same two values reports the same components: the factory, diff(), and the operators with
        # a NATIVE datetime on either side (the native operand is what the compiled helper sees as a foreign subclass / exact type)
        if kind != "date":
            na = D.datetime(*T.fields(a), tzinfo=a.tzinfo, fold=a.fold)
            nb = D.datetime(*T.fields(b), tzinfo=b.tzinfo, fold=b.fold)
            neg = tuple(-v for v in c)
            forms = [("interval(a, b)", lambda: pendulum.interval(a, b), c), ("a.diff(b, False)", lambda: a.diff(b, False), c), ("b.diff(a, False)", lambda: b.diff(a, False), neg),
                     ("b - native(a)", lambda: b - na, c), ("native(b) - a", lambda: nb - a, c), ("a - native(b)", lambda: a - nb, neg), ("native(a) - b", lambda: na - b, neg),
                     ("interval(native(a), native(b))", lambda: pendulum.interval(na, nb), c), ("interval(native(b), native(a))", lambda: pendulum.interval(nb, na), neg),
                     ("interval(b, a, absolute=True)", lambda: pendulum.interval(b, a, absolute=True), c)]
            for nm, f, want in forms:
                iv3 = f()
                req(isinstance(iv3, Interval), f"{nm} is not an Interval", got=type(iv3).__name__)
                got = interval_components(iv3)
                req(got == (want if span > 0 else c), f"{nm} does not report the components of b - a{' negated' if want is neg else ''}", a=str(a), b=str(b), got=got,
                    expected=want)
        return borrow, case["kind"]


@st.composite
def cross_case(draw):
    z1, z2 = draw(S.zones()), draw(S.zones())
    if z1 == z2:
        allz = T.all_zones()
        z2 = allz[(allz.index(z1) + 1 + draw(st.integers(0, 50))) % len(allz)]
    u1 = draw(st.one_of(S.instant_near_transition(z1), S.uniform_instant()))
    k = draw(st.integers(0, 2))
    if k == 0:
        u2 = u1 + draw(S.uni(0, 3 * 86400 * US))
    elif k == 1:
        u2 = u1 + draw(S.uni(0, 800 * 86400 * US))
    else:
        u2 = draw(S.uniform_instant())
    u1, u2 = sorted((u1, S.clamp_u(u2)))
    return {"z1": z1, "z2": z2, "u1": u1, "u2": u2, "src": draw(st.sampled_from(["zoneinfo", "pendulum"]))}


class CrossZone(Sub):
    ambient = True
    name = "cross_zone"
    backends = ("rust", "py")
    n = {"quick": 12000, "thorough": 300000}
    shards = {"quick": 4, "thorough": 8}
    rule = ("endpoints in differently named zones: components equal those of the same two instants expressed in UTC, for both helpers and "
            "through Interval; non-trivial: the UTC shift moves an endpoint across a day boundary")

    def strategy(self, ctx):
        return cross_case()

    def check(self, case, ctx):
        z1, z2, u1, u2 = case["z1"], case["z2"], case["u1"], case["u2"]
        if z1 == z2:
            raise Skip("same zone name (covered by datetime_pairs)")
        if case["src"] == "zoneinfo":
            a, b = T.render(u1, z1), T.render(u2, z2)
        else:
            ra, rb = T.render(u1, z1), T.render(u2, z2)
            a = D.datetime(*T.fields(ra), tzinfo=pendulum.timezone(z1), fold=ra.fold)
            b = D.datetime(*T.fields(rb), tzinfo=pendulum.timezone(z2), fold=rb.fold)
        ua, ub = T.render(u1, "UTC"), T.render(u2, "UTC")
        ref = comp(PY.precise_diff(ua.replace(tzinfo=None), ub.replace(tzinfo=None)))
        check_components("reference UTC decomposition", ref, ua.replace(tzinfo=None), ub.replace(tzinfo=None))
        p = comp(PY.precise_diff(a, b))
        r = comp(RS.precise_diff(a, b))
        req(p == ref, "python helper: cross-zone components differ from the UTC decomposition", a=a.isoformat(), b=b.isoformat(), got=p, expected=ref)
        req(r == ref, "rust helper: cross-zone components differ from the UTC decomposition", a=a.isoformat(), b=b.isoformat(), got=r, expected=ref)
        iv = pendulum.instance(b) - pendulum.instance(a)
        c = interval_components(iv)
        got = (c[0], c[1], c[2] * 7 + c[3], c[4], c[5])
        req(got == ref[:5], "Interval: cross-zone components differ from the UTC decomposition", got=got, expected=ref[:5])
        if True:
            req((iv.remaining_seconds, iv.microseconds) == ref[5:], "Interval: seconds/microseconds differ from the UTC decomposition",
                got=(iv.remaining_seconds, iv.microseconds), expected=ref[5:])
        # the same pair reaching Interval as NATIVE datetimes (the factory and the operators accept them): same components on either backend
        for nm, f in (("interval(native a, native b)", lambda: pendulum.interval(a, b)), ("instance(b) - native a", lambda: pendulum.instance(b) - a),
                      ("native b - instance(a)", lambda: b - pendulum.instance(a))):
            c3 = interval_components(f())
            got3 = (c3[0], c3[1], c3[2] * 7 + c3[3], c3[4], c3[5], c3[6], c3[7])
            req(got3 == tuple(ref), f"{nm}: cross-zone components differ from the UTC decomposition", a=a.isoformat(), b=b.isoformat(), got=got3, expected=tuple(ref))
        nt = a.date() != ua.date() or b.date() != ub.date()
        return nt, "shift-crosses-day" if nt else "same-day"


SUBS = [DatePairs(), DateTimePairs(), CrossZone()]
