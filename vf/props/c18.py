"""C18 — Human-readable differences are total, localized and correctly directed."""
from __future__ import annotations

import calendar
import datetime as D
import importlib
import os
import re
import warnings

from hypothesis import strategies as st

import pendulum
from pendulum import DateTime
from vf import env
from vf import oracle_tz as T
from vf import strategies as S
from vf.core import Known, Skip, Sub, Violation, req

warnings.simplefilter("ignore")
US = 10**6
RULE = ("oracle: phrase rebuilt independently from the locale's own data tables (unit template x plural class x direction marker); "
        "count/unit invariant (largest non-zero unit, count in {component, component+1}, within one unit of the elapsed time) on random pairs")
ASSUMPTIONS = ["locale data tables are the source of the expected templates (not re-derived from CLDR)",
               "exact +1 thresholds asserted only where the repository's own tests/docs pin them (months > 6 -> next year, remaining days > 3 -> next week, truncation for h/m/s)",
               "diff_for_humans() is driven with an explicit `other`, and the `now` flavour through format_diff(diff, is_now=True): no clock involved"]

LOCALES = sorted(d for d in os.listdir(os.path.join(env.REPO, "src", "pendulum", "locales"))
                 if os.path.isdir(os.path.join(env.REPO, "src", "pendulum", "locales", d)) and not d.startswith("_"))
UNITS = [("year", 1000), ("month", 11), ("week", 3), ("day", 6), ("hour", 23), ("minute", 59), ("second", 59)]
BASE = (2020, 3, 15, 12, 0, 0)


def data(loc):
    return importlib.import_module(f"pendulum.locales.{loc}.locale").locale


def get(d, path):
    for p in path.split("."):
        if not isinstance(d, dict) or p not in d:
            return None
        d = d[p]
    return d


def expected_phrase(L, unit, count, future, is_now, absolute):
    """independent reconstruction for an interval whose largest unit is exactly `count` `unit`s"""
    plural = L["plural"]
    few = get(L, "custom.units.few_second")
    if (count == 0 or (unit == "second" and count <= 10)) and few is not None:
        if absolute:
            return few
        key = ("from_now" if future else "ago") if is_now else ("after" if future else "before")
        return get(L, "custom." + key).format(few)
    c = count if count > 0 else 1
    u = unit if count > 0 else "second"
    pl = plural(c)
    if absolute:
        return get(L, f"translations.units.{u}.{pl}").format(c)
    if is_now:
        return get(L, f"translations.relative.{u}.{'future' if future else 'past'}.{pl}").format(c)
    tr = get(L, f"custom.units_relative.{u}.{'future' if future else 'past'}")
    t = (tr[pl] if tr else get(L, f"translations.units.{u}.{pl}")).format(c)
    return get(L, "custom." + ("after" if future else "before")).format(t)


def well_formed(tag, s):
    req(isinstance(s, str) and s.strip() != "", f"{tag}: not a non-empty string", got=repr(s))
    req("{" not in s and "}" not in s, f"{tag}: unsubstituted placeholder", got=s)


class Phrases(Sub):
    name = "phrases_exhaustive"
    kind = "enum"
    case_timeout = 900.0
    backends = ("py",)
    n = {"quick": 0, "thorough": 0}
    shards = {"quick": 9, "thorough": 27}
    distinct_by_construction = True
    rule = ("every locale x unit x count (years 0..1000, months 0..11, weeks 0..3, days 0..6, hours 0..23, minutes/seconds 0..59) x {now, other} x "
            "{instance earlier, later} x {absolute}; quick: years 0..120 and 1000; non-trivial: plural class != 'other' in that locale, or non-English locale")

    def exhaustive(self, tier):
        return tier == "thorough"

    def cases(self, ctx, shard, nshards):
        for i, loc in enumerate(LOCALES):
            if i % nshards != shard:
                continue
            for unit, maxc in UNITS:
                for cnt in range(0, maxc + 1):
                    if not ctx.thorough and cnt > 120 and cnt != 1000:
                        continue
                    yield {"locale": loc, "unit": unit, "count": cnt}

    def check(self, case, ctx):
        loc, unit, cnt = case["locale"], case["unit"], case["count"]
        L = data(loc)
        base = pendulum.datetime(*BASE)
        n = nt = 0
        for sign in (1, -1):
            other = base.add(**{unit + "s": sign * cnt})
            future = other < base     # instance later than the reference -> 'after' / 'from now'
            iv = base.diff(other)
            for is_now in (True, False):
                for absolute in (True, False):
                    s = pendulum.format_diff(iv, is_now, absolute, loc)
                    well_formed(f"format_diff[{loc}]", s)
                    exp = expected_phrase(L, unit, cnt, future, is_now, absolute)
                    req(s == exp, f"format_diff: wrong phrase for {cnt} {unit}(s), locale {loc}, is_now={is_now}, absolute={absolute}, instance {'later' if future else 'earlier'}",
                        got=s, expected=exp)
                    if not is_now:
                        s2 = base.diff_for_humans(other, absolute=absolute, locale=loc)
                        req(s2 == s, "diff_for_humans(other) differs from format_diff of the same interval", got=s2, expected=s)
                        pendulum.set_locale(loc)
                        try:
                            s3 = base.diff_for_humans(other, absolute=absolute)
                            s4 = iv.in_words()
                        finally:
                            pendulum.set_locale("en")
                        req(s3 == s, f"diff_for_humans under set_locale({loc!r}) differs from locale={loc!r}", got=s3, expected=s)
                        req(s4 == iv.in_words(locale=loc), f"in_words under set_locale({loc!r}) differs from locale={loc!r}", got=s4)
                    n += 1
            if cnt == 0:
                break
        pl = L["plural"](cnt if cnt else 1)
        return (pl != "other" or not loc.startswith("en")), f"{loc}:{pl}"


def ref_add(w: D.datetime, years=0, months=0, days=0, seconds=0):
    tm = w.year * 12 + w.month - 1 + years * 12 + months
    y, m0 = divmod(tm, 12)
    d = min(w.day, calendar.monthrange(y, m0 + 1)[1])
    return w.replace(year=y, month=m0 + 1, day=d) + D.timedelta(days=days, seconds=seconds)


EN = re.compile(r"^(in )?(?:(\d+) (year|month|week|day|hour|minute|second)s?|(a few seconds))(?: (ago|before|after))?$")
UNIT_S = {"week": 7 * 86400, "day": 86400, "hour": 3600, "minute": 60, "second": 1}


@st.composite
def pair_case(draw):
    z = draw(st.sampled_from(["UTC", "UTC", "Europe/Paris", "America/New_York", "Asia/Kolkata", "Australia/Lord_Howe"]))
    u1 = draw(S.uni(-10**15, 3 * 10**15))
    tr = T.transitions(z)
    if draw(st.integers(0, 9)) == 0:
        # a few microseconds apart, anywhere between years 2 and 9998 (and right at an offset change when the zone has one)
        base = tr[draw(st.integers(0, len(tr) - 1))][0] * US if tr and draw(st.booleans()) else draw(S.uni(S.LO_U, S.HI_U))
        return {"zone": z, "u1": S.clamp_u(base - draw(st.integers(0, 20))), "span": draw(st.integers(1, 40)) * draw(st.sampled_from([1, -1])), "absolute": draw(st.booleans()),
                "now": draw(st.booleans())}
    if tr and draw(st.integers(0, 2)) == 0:
        # a pair that straddles an offset change by hours (sub-day spans across midnight are decomposed differently from longer ones)
        t = tr[draw(st.integers(0, len(tr) - 1))][0] * US
        u1 = S.clamp_u(t - draw(S.uni(0, 2 * 86400 * US)))
        span = draw(S.uni(0, 3 * 86400 * US))
        if draw(st.booleans()):
            u1, span = S.clamp_u(u1 + span), -span
        return {"zone": z, "u1": u1, "span": span, "absolute": draw(st.booleans()), "now": draw(st.booleans())}
    k = draw(st.integers(0, 6))
    span = draw([S.uni(0, 70 * US), S.uni(0, 2 * 3600 * US), S.uni(0, 3 * 86400 * US), S.uni(0, 40 * 86400 * US),
                 S.uni(0, 800 * 86400 * US), S.uni(0, 40000 * 86400 * US),
                 st.builds(lambda mo, d, s: ((mo * 30 + d) * 86400 + s) * US, st.integers(0, 30), st.sampled_from([0, 1, 3, 4, 14, 15, 16, 26, 27, 28]), st.integers(0, 86399))][k])
    return {"zone": z, "u1": u1, "span": span * draw(st.sampled_from([1, -1])), "absolute": draw(st.booleans()), "now": draw(st.booleans())}


class Direction(Sub):
    name = "direction_magnitude"
    backends = ("py", "rust")
    n = {"quick": 12000, "thorough": 300000}
    shards = {"quick": 2, "thorough": 8}
    rule = ("random instant pairs, English phrase parsed back: marker matches the order of the instants, unit = largest non-zero component, "
            "count in {component, component+1} and within one unit of the elapsed time; non-trivial: count was rounded up, or span crosses a DST change")

    def strategy(self, ctx):
        return pair_case()

    def check(self, case, ctx):
        z, u1 = case["zone"], case["u1"]
        u2 = S.clamp_u(u1 + case["span"])
        a = pendulum.instance(T.render(u1, z))
        b = pendulum.instance(T.render(u2, z))
        wall_order = (T.naive_us(a) > T.naive_us(b)) - (T.naive_us(a) < T.naive_us(b))
        inst_order = (u1 > u2) - (u1 < u2)
        absolute, is_now = case["absolute"], case["now"]
        if is_now:
            s = pendulum.format_diff(a.diff(b), True, absolute, "en")
        else:
            s = a.diff_for_humans(b, absolute=absolute, locale="en")
        well_formed("diff_for_humans", s)
        m = EN.match(s)
        req(m is not None, "English phrase has an unexpected shape", got=s)
        req(not (m.group(1) and m.group(5)), "phrase carries two direction markers", got=s)
        marker = "from now" if m.group(1) else m.group(5)
        if absolute:
            req(marker is None, "absolute=True phrase carries a direction marker", got=s)
        else:
            exp = ("from now" if inst_order > 0 else "ago") if is_now else ("after" if inst_order > 0 else "before")
            if inst_order == 0:
                req(marker in (("from now", "ago") if is_now else ("after", "before")), "no direction marker", got=s)
            elif marker != exp:
                if wall_order != inst_order:
                    raise Known("K-C05-1", "direction decided on wall-clock order")
                raise Violation("direction marker does not match the order of the two instants", got=s, expected_marker=exp, a=str(a), b=str(b))
        lo, hi = (a, b) if u1 <= u2 else (b, a)
        wl, wh = D.datetime(*T.fields(lo)), D.datetime(*T.fields(hi))
        elapsed = abs(u2 - u1)
        if m.group(4):
            req(elapsed < 11 * US, "'a few seconds' for 11 seconds or more", got=s, elapsed_s=elapsed / US)
            return False, "few-seconds"
        count, unit = int(m.group(2)), m.group(3)
        iv = hi - lo
        comps = [("year", iv.years), ("month", iv.months), ("week", iv.weeks), ("day", iv.remaining_days), ("hour", iv.hours), ("minute", iv.minutes),
                 ("second", iv.remaining_seconds)]
        largest = next(((u, c) for u, c in comps if c > 0), ("second", 0))
        # the unit may be one step larger when the largest component is rounded up to the next unit (11 months 16 days -> 1 year)
        order = [u for u, _ in comps]
        req(unit == largest[0] or (order.index(unit) == order.index(largest[0]) - 1 and count == 1),
            "phrase is not expressed in the interval's largest non-zero unit", got=s, components=dict(comps))
        rounded = False
        if unit == largest[0]:
            req(count in (largest[1], largest[1] + 1) or (largest[1] == 0 and count == 1), "count is neither the component nor the component + 1", got=s, components=dict(comps))
            rounded = count == largest[1] + 1
        # within one unit of the true elapsed time (calendar-aware for years/months, on the wall clock of the zone)
        if unit in ("year", "month"):
            k = {"years": count - 1} if unit == "year" else {"months": count - 1}
            k2 = {"years": count + 1} if unit == "year" else {"months": count + 1}
            req(ref_add(wl, **k) <= wh <= ref_add(wl, **k2), "count is more than one unit away from the elapsed time", got=s, start=str(lo), end=str(hi))
        else:
            req(abs(count * UNIT_S[unit] * US - elapsed) <= UNIT_S[unit] * US + 3 * 3600 * US * (unit in ("week", "day")),
                "count is more than one unit away from the elapsed time", got=s, elapsed_s=elapsed / US)
        # thresholds pinned by the repository's own tests/docs
        if unit == "year" and largest[0] == "year":
            req(count == iv.years + (1 if iv.months > 6 else 0), "years: documented rounding is +1 when more than 6 months remain", got=s, components=dict(comps))
        if unit == "week" and largest[0] == "week":
            req(count == iv.weeks + (1 if iv.remaining_days > 3 else 0), "weeks: documented rounding is +1 when more than 3 days remain", got=s, components=dict(comps))
        if unit == "day" and largest[0] == "day" and iv.hours == 23:
            # pinned by tests/datetime/test_diff.py::test_diff_for_humans_accuracy (5 days 23 hours across a DST change -> "6 days")
            req(count == iv.remaining_days + 1, "days: 23 remaining hours are documented to round up to the next day", got=s, components=dict(comps))
        if unit in ("hour", "minute", "second") and largest[0] == unit:
            req(count == max(largest[1], 1), "hours/minutes/seconds are documented to truncate", got=s, components=dict(comps))
        return rounded or T.transition_between(u1, u2, z), ("rounded-up" if rounded else "truncated") + ":" + unit


dur_args = st.fixed_dictionaries({}, optional={"years": st.integers(-3, 30), "months": st.integers(-3, 30), "weeks": st.integers(-3, 30), "days": st.integers(-3, 40),
                                               "hours": st.integers(-3, 50), "minutes": st.integers(-3, 100), "seconds": st.integers(-3, 1000),
                                               "microseconds": st.integers(-10**6, 10**6)})


class InWords(Sub):
    name = "in_words"
    backends = ("py",)
    n = {"quick": 8000, "thorough": 200000}
    shards = {"quick": 2, "thorough": 8}
    rule = "Duration/Interval.in_words() for every subset of components and either sign x every locale: rebuilt from locale unit templates; non-trivial: non-English locale or >= 3 components"

    def strategy(self, ctx):
        return st.fixed_dictionaries({"args": st.one_of(dur_args, dur_args, dur_args, S.ym_cancel_args()), "locale": st.sampled_from(LOCALES), "sep": st.sampled_from([" ", ", ", "-"]),
                                      "interval": st.booleans(), "u": S.uni(0, 3 * 10**15)})

    def check(self, case, ctx):
        loc, sep = case["locale"], case["sep"]
        L = data(loc)
        if case["interval"]:
            a = pendulum.instance(T.render(case["u"], "UTC"))
            try:
                b = a.add(**{k: abs(v) for k, v in case["args"].items()})
            except (OverflowError, ValueError):
                raise Skip("out of range")
            d = b - a if case["u"] % 2 else a - b
        else:
            d = pendulum.duration(**case["args"])
        s = d.in_words(locale=loc, separator=sep)
        well_formed(f"in_words[{loc}]", s)
        if not case["interval"]:
            req(str(d) == d.in_words(), "str(duration) differs from in_words()")
        comps = [("year", d.years), ("month", d.months), ("week", d.weeks), ("day", d.remaining_days), ("hour", d.hours), ("minute", d.minutes),
                 ("second", d.remaining_seconds)]
        parts = [get(L, f"translations.units.{u}.{L['plural'](abs(c))}").format(c) for u, c in comps if abs(c) > 0]
        if parts:
            req(s == sep.join(parts), "in_words() is not the locale's unit templates joined by the separator", got=s, expected=sep.join(parts))
        return (not loc.startswith("en")) or len(parts) >= 3, f"{loc}"


TOKENS = ["MMMM", "MMM", "Mo", "Do", "DDDo", "dddd", "ddd", "dd", "do", "e", "eo", "Qo", "wo", "A", "LT", "LTS", "L", "LL", "LLL", "LLLL"]


class LocaleTokens(Sub):
    name = "locale_tokens"
    kind = "enum"
    case_timeout = 900.0
    backends = ("py",)
    n = {"quick": 0, "thorough": 0}
    shards = {"quick": 3, "thorough": 9}
    distinct_by_construction = True
    rule = "every locale x 12 months x 7 weekdays x {am, pm} x every locale-dependent token: renders a non-empty string; names equal the locale tables; every case non-trivial"

    def exhaustive(self, tier):
        return True

    def cases(self, ctx, shard, nshards):
        for i, loc in enumerate(LOCALES):
            if i % nshards == shard:
                for month in range(1, 13):
                    yield {"locale": loc, "month": month}

    def check(self, case, ctx):
        loc, month = case["locale"], case["month"]
        L = data(loc)
        n = 0
        for day in range(1, 8):
            for hour in (3, 15):
                dt = pendulum.datetime(2021, month, day, hour, 7, 9)
                for tok in TOKENS:
                    s = dt.format(tok, locale=loc)
                    well_formed(f"format({tok!r}, locale={loc})", s)
                    n += 1
                req(dt.format("MMMM", locale=loc) == get(L, "translations.months.wide")[month], "MMMM is not the locale's wide month name")
                req(dt.format("MMM", locale=loc) == get(L, "translations.months.abbreviated")[month], "MMM is not the locale's abbreviated month name")
                wd = dt.weekday()
                req(dt.format("dddd", locale=loc) == get(L, "translations.days.wide")[wd], "dddd is not the locale's wide day name", got=dt.format("dddd", locale=loc))
                req(dt.format("ddd", locale=loc) == get(L, "translations.days.abbreviated")[wd], "ddd is not the locale's abbreviated day name")
                req(dt.format("dd", locale=loc) == get(L, "translations.days.short")[wd], "dd is not the locale's short day name")
                req(dt.format("A", locale=loc) == get(L, "translations.day_periods." + ("pm" if hour >= 12 else "am")), "A is not the locale's day period")
        ctx.cache["n"] = ctx.cache.get("n", 0) + n
        ctx.cache["evidence_extra"] = {"inner_evaluations": ctx.cache["n"], "inner_nontrivial": ctx.cache["n"]}
        return False, loc


class OtherEntryPoints(Sub):
    name = "date_and_time_entry_points"
    backends = ("py", "rust")
    n = {"quick": 5000, "thorough": 120000}
    shards = {"quick": 2, "thorough": 4}
    rule = ("Date.diff_for_humans(other) with other a Date, a DateTime (a Date subclass), a native date or a native datetime, and Time.diff_for_humans(other) with a Time or a "
            "native time, x locales x absolute: total, well-formed, and the same phrase as DateTime.diff_for_humans between the two midnights / the two times on one day "
            "(whose direction, unit and count are checked by the other sub-checks); non-trivial: the reference is not of the instance's own class")

    def strategy(self, ctx):
        day = st.builds(lambda o: o, st.integers(D.date(1900, 1, 1).toordinal(), D.date(2100, 12, 31).toordinal()))
        near = st.builds(lambda o, d: (o, max(D.date(1900, 1, 1).toordinal(), min(D.date(2100, 12, 31).toordinal(), o + d))), day,
                         st.sampled_from([0, 1, -1, 6, 7, -7, 13, 14, 27, 28, 29, 30, 31, -31, 45, 364, 365, 366, -366, 400, 1000]) | st.integers(-20000, 20000))
        tod = st.integers(0, 86399).flatmap(lambda a: st.tuples(st.just(a), st.sampled_from([0, 1, -1, 9, 10, 11, 59, 60, 61, 3599, 3600, 3601, -3600, 7200, 43200]) | st.integers(-86399, 86399)))
        return st.fixed_dictionaries({"days": near, "tod": tod, "us": st.sampled_from([0, 0, 1, 999999]), "kind": st.sampled_from(
            ["date/date", "date/datetime", "date/aware-datetime", "date/native-date", "date/native-datetime", "time/time", "time/native-time"]),
            "locale": st.sampled_from(LOCALES), "absolute": st.booleans(), "set_locale": st.booleans()})

    def check(self, case, ctx):
        kind, loc, absolute = case["kind"], case["locale"], case["absolute"]
        o1, o2 = case["days"]
        d1, d2 = D.date.fromordinal(o1), D.date.fromordinal(o2)
        a, delta = case["tod"]
        b = (a + delta) % 86400
        h = lambda v: (v // 3600, v // 60 % 60, v % 60)
        kw = {} if case["set_locale"] else {"locale": loc}
        if case["set_locale"]:
            pendulum.set_locale(loc)
        try:
            if kind.startswith("date/"):
                x = pendulum.date(d1.year, d1.month, d1.day)
                other = {"date/date": lambda: pendulum.date(d2.year, d2.month, d2.day),
                         "date/datetime": lambda: pendulum.naive(d2.year, d2.month, d2.day, *h(b), case["us"]),
                         "date/aware-datetime": lambda: pendulum.datetime(d2.year, d2.month, d2.day, *h(b), case["us"], tz="Europe/Paris"),
                         "date/native-date": lambda: D.date(d2.year, d2.month, d2.day),
                         "date/native-datetime": lambda: D.datetime(d2.year, d2.month, d2.day, *h(b), case["us"])}[kind]()
                got = x.diff_for_humans(other, absolute, **kw)
                ref = pendulum.datetime(d1.year, d1.month, d1.day).diff_for_humans(pendulum.datetime(d2.year, d2.month, d2.day), absolute, **kw)
            else:
                x = pendulum.time(*h(a), case["us"])
                other = pendulum.time(*h(b)) if kind == "time/time" else D.time(*h(b))
                got = x.diff_for_humans(other, absolute, **kw)
                ref = pendulum.datetime(2021, 6, 15, *h(a), case["us"]).diff_for_humans(pendulum.datetime(2021, 6, 15, *h(b)), absolute, **kw)
        finally:
            if case["set_locale"]:
                pendulum.set_locale("en")
        well_formed(f"{kind} diff_for_humans", got)
        req(got == ref, f"{kind}: diff_for_humans differs from the phrase for the same two values as DateTimes", got=got, as_datetimes=ref, locale=loc, absolute=absolute)
        return kind not in ("date/date", "time/time"), kind


BIG_COUNTS = [1001, 1011, 10000, 100000, 500000, 999999, 10**6, 10**6 + 1, 1234567, 2 * 10**6, 3 * 10**6, 10**7, 11 * 10**6, 10**8, 142857142]


class LargeCounts(Sub):
    name = "large_counts"
    kind = "enum"
    case_timeout = 900.0
    backends = ("py",)
    n = {"quick": 0, "thorough": 0}
    shards = {"quick": 3, "thorough": 9}
    distinct_by_construction = True
    rule = ("every locale x {years, months, weeks} x counts beyond the 0..1000 sweep that CLDR plural rules single out (powers of ten, multiples of 10^6, their "
            "neighbours, the largest week count of a Duration) x in_words() and format_diff() in its four now/absolute combinations: a non-empty string without "
            "placeholders that carries the count, never an exception; every case non-trivial")

    def exhaustive(self, tier):
        return True

    def cases(self, ctx, shard, nshards):
        for i, loc in enumerate(LOCALES):
            if i % nshards == shard:
                for unit in ("years", "months", "weeks"):
                    yield {"locale": loc, "unit": unit}

    def check(self, case, ctx):
        loc, unit = case["locale"], case["unit"]
        n = 0
        for c in BIG_COUNTS:
            for sg in (1, -1):
                try:
                    d = pendulum.duration(**{unit: sg * c})
                except OverflowError:
                    continue
                outs = [("in_words", d.in_words(locale=loc))]
                for is_now in (True, False):
                    for absolute in (True, False):
                        if sg < 0:
                            continue    # format_diff() takes the (absolute-valued, flagged) Interval that diff() builds; a raw negative Duration is not its input
                        outs.append((f"format_diff(is_now={is_now}, absolute={absolute})", pendulum.format_diff(d, is_now, absolute, loc)))
                for tag, s in outs:
                    n += 1
                    well_formed(f"{tag}[{loc}] of {sg * c} {unit}", s)
                    req(str(c) in s, f"{tag}[{loc}]: the phrase does not carry the count", got=s, count=c, unit=unit)
        ctx.cache["n"] = ctx.cache.get("n", 0) + n
        ctx.cache["evidence_extra"] = {"inner_evaluations": ctx.cache["n"], "inner_nontrivial": ctx.cache["n"]}
        return True, loc


class CrossTzinfo(Sub):
    name = "cross_tzinfo_pairs"
    backends = ("py", "rust")
    n = {"quick": 5000, "thorough": 100000}
    shards = {"quick": 2, "thorough": 4}
    rule = ("two pendulum DateTimes whose tzinfo objects differ in kind or value - stdlib datetime.timezone offsets (nameless), FixedTimezone, named zones, mixed - x "
            "spans from seconds to years: diff_for_humans / in_words give the phrase of the same two instants rendered in UTC (endpoints in different timezones are "
            "decomposed in UTC) and the direction of the instants; non-trivial: at least one tzinfo is a nameless stdlib offset")

    def strategy(self, ctx):
        kind = st.sampled_from(["stdlib", "stdlib", "fixed", "named"])
        off = st.sampled_from([0, 3600, -3600, 14 * 3600, -12 * 3600, 19800, -34200, 50400]) | st.integers(-1439, 1439).map(lambda m: m * 60)
        span = st.one_of(S.uni(0, 70 * US), S.uni(0, 3 * 3600 * US), S.uni(0, 4 * 86400 * US), S.uni(0, 70 * 86400 * US), S.uni(0, 4000 * 86400 * US))
        return st.fixed_dictionaries({"k1": kind, "k2": kind, "o1": off, "o2": off, "z1": st.sampled_from(["Europe/Paris", "America/New_York", "Pacific/Kiritimati", "UTC"]),
                                      "z2": st.sampled_from(["Asia/Tokyo", "America/Los_Angeles", "Pacific/Pago_Pago", "Europe/London"]),
                                      "u1": S.uni(-10**15, 3 * 10**15), "span": span, "sign": st.sampled_from([1, -1]), "absolute": st.booleans(), "locale": st.sampled_from(["en", "fr", "ru"])})

    def check(self, case, ctx):
        def mk(kind, off, zone, u):
            if kind == "named":
                return pendulum.instance(T.render(u, zone))
            r = T.render_fixed(u, off)
            tz = D.timezone(D.timedelta(seconds=off)) if kind == "stdlib" else pendulum.tz.fixed_timezone(off)
            return DateTime(*T.fields(r), tzinfo=tz)
        u1 = case["u1"]
        u2 = S.clamp_u(u1 + case["sign"] * case["span"])
        a, b = mk(case["k1"], case["o1"], case["z1"], u1), mk(case["k2"], case["o2"], case["z2"], u2)
        req(T.us(a) == u1 and T.us(b) == u2, "harness: endpoints not at the requested instants")
        if a.tzinfo is b.tzinfo or (case["k1"] == case["k2"] and case["k1"] != "named" and case["o1"] == case["o2"]):
            raise Skip("same tzinfo")
        au, bu = pendulum.instance(T.render(u1, "UTC")), pendulum.instance(T.render(u2, "UTC"))
        loc, absolute = case["locale"], case["absolute"]
        got = a.diff_for_humans(b, absolute=absolute, locale=loc)
        ref = au.diff_for_humans(bu, absolute=absolute, locale=loc)
        well_formed("diff_for_humans", got)
        req(got == ref, "diff_for_humans of two values with different tzinfo differs from the phrase of the same two instants in UTC", got=got, in_utc=ref, a=a.isoformat(),
            b=b.isoformat(), kinds=[case["k1"], case["k2"]])
        w1, w2 = (b - a).in_words(locale=loc), (bu - au).in_words(locale=loc)
        req(w1 == w2, "in_words of the interval of two values with different tzinfo differs from the same two instants in UTC", got=w1, in_utc=w2, a=a.isoformat(), b=b.isoformat())
        return "stdlib" in (case["k1"], case["k2"]), case["k1"] + "/" + case["k2"]


SUBS = [Phrases(), Direction(), InWords(), LocaleTokens(), OtherEntryPoints(), LargeCounts(), CrossTzinfo()]
