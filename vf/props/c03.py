"""C03 — Adding fixed-length units moves the instant by exactly that elapsed time."""
from __future__ import annotations

import datetime as D
from fractions import Fraction
import warnings

from hypothesis import strategies as st

import pendulum
from pendulum import DateTime
from vf import oracle_tz as T
from vf import strategies as S
from vf.core import Skip, Sub, req

warnings.simplefilter("ignore")
US = 10**6
RULE = "oracle: integer microsecond arithmetic on the instant + native zoneinfo rendering of the resulting instant"
ASSUMPTIONS = ["CPython zoneinfo + installed tz data", "amounts limited to |total| <= 1e9 s (the property's stated range)"]

amount = st.one_of(
    st.fixed_dictionaries({}, optional={
        "hours": st.integers(-60000, 60000), "minutes": st.integers(-4 * 10**6, 4 * 10**6),
        "seconds": S.uni(-3 * 10**8, 3 * 10**8), "microseconds": S.uni(-2 * 10**14, 2 * 10**14)}),
    st.fixed_dictionaries({}, optional={
        "hours": st.integers(-50, 50), "minutes": st.integers(-200, 200),
        "seconds": st.integers(-7300, 7300), "microseconds": st.integers(-2 * 10**6, 2 * 10**6)}),
    st.fixed_dictionaries({"hours": st.integers(-3, 3), "minutes": st.sampled_from([0, -59, 59, 60, -60, 30]),
                           "seconds": st.sampled_from([0, 59, -59, 60, -60, 1, -1]),
                           "microseconds": st.sampled_from([0, 1, -1, 999999, -999999, 10**6, -10**6])}),
    # seconds is declared as a float: dyadic fractions (k/64 s = k * 15625 us) are exact, so the requested amount stays an integer of microseconds
    st.fixed_dictionaries({"seconds": st.integers(-64 * 7300, 64 * 7300).map(lambda k: k / 64)},
                          optional={"hours": st.integers(-50, 50), "minutes": st.integers(-200, 200), "microseconds": st.integers(-2 * 10**6, 2 * 10**6)}),
)


def total(a):
    t = ((a.get("hours", 0) * 60 + a.get("minutes", 0)) * 60 + Fraction(a.get("seconds", 0))) * US + a.get("microseconds", 0)
    assert t.denominator == 1, a
    return int(t)


OPS = ["add", "subtract", "+td", "-td", "td+"]


@st.composite
def aware_case(draw):
    z = draw(S.zones())
    u = draw(st.one_of(S.instant_near_transition(z), S.instant_near_transition(z), S.uniform_instant(), S.calendar_edge_instant(z)))
    a = draw(amount)
    if draw(st.integers(0, 4)) == 0 and T.transitions(z):
        # aim the result at a transition of the zone
        tr = T.transitions(z)
        t, oa, ob = tr[draw(st.integers(0, len(tr) - 1))]
        target = t * US + draw(st.sampled_from([-1, 0, 1, -US, US, (ob - oa) * US, -(ob - oa) * US]))
        d = target - u
        if abs(d) <= 10**15:
            a = {"seconds": d // US, "microseconds": d % US}
    return {"zone": z, "u": u, "amt": a, "op": draw(st.sampled_from(OPS)), "prov": draw(st.sampled_from(["convert", "construct"]))}


def mk(zone, u, prov):
    r = T.render(u, zone)
    if prov == "convert":
        x = pendulum.instance(r)
    else:
        x = pendulum.datetime(*T.fields(r), tz=zone, fold=r.fold)
    req(T.us(x) == u, "harness: could not build the start value", got=x.isoformat())
    return x


# The operators evaluated directly inside functions that carry the NAMES of datetime-API methods: pendulum decides how '+' behaves by looking at the name
# of the calling frame (a hook for the native astimezone()); a user's function of the same name must get the same arithmetic as everybody else.
CALLERS = {}
for _nm in ("astimezone", "utctimetuple", "fromutc", "utcoffset", "timetuple", "timestamp", "in_timezone", "convert", "normalize", "localize"):
    _ns = {}
    exec(f"def {_nm}(x, td, op):\n    if op == '+td':\n        return x + td\n    if op == '-td':\n        return x - td\n    return td + x\n", _ns)
    CALLERS[_nm] = _ns[_nm]
CALLER_NAMES = sorted(CALLERS)


def apply(x, a, op):
    if op == "add":
        return x.add(**a), 1
    if op == "subtract":
        return x.subtract(**a), -1
    td = D.timedelta(**a)
    k = (abs(total(a)) + x.microsecond + x.second) % (2 * len(CALLER_NAMES))
    if k < len(CALLER_NAMES):
        return CALLERS[CALLER_NAMES[k]](x, td, op), (-1 if op == "-td" else 1)
    if op == "+td":
        return x + td, 1
    if op == "-td":
        return x - td, -1
    return td + x, 1


class Aware(Sub):
    ambient = True
    name = "aware"
    n = {"quick": 14000, "thorough": 300000}
    shards = {"quick": 3, "thorough": 8}
    rule = ("add / subtract / + timedelta / - timedelta / timedelta + with integer and dyadic-float amounts, starts near transitions, uniform and on calendar edges (leap-rule years x end of "
            "February, month and year ends); non-trivial: a transition of the zone lies between start and result, or start/result within a gap length of a transition")

    def describe(self, case):
        return {"value": T.render(case["u"], case["zone"]).isoformat()}

    def strategy(self, ctx):
        return aware_case()

    def check(self, case, ctx):
        z, u, a, op = case["zone"], case["u"], case["amt"], case["op"]
        tot = total(a)
        if abs(tot) > 10**15:
            raise Skip("|total| > 1e9 s")
        sg = -1 if op in ("subtract", "-td") else 1
        v = u + sg * tot
        if not (T.MIN_US + 2 * 86400 * US <= v <= T.MAX_US - 2 * 86400 * US):
            raise Skip("result outside years 1..9999")
        x = mk(z, u, case["prov"])
        r, sg = apply(x, a, op)
        req(isinstance(r, DateTime), f"{op}: result is not a DateTime", got=type(r).__name__)
        req(r.timezone_name == z, f"{op}: timezone not kept", got=r.timezone_name)
        ru = T.us(r)
        exp = T.render(v, z)
        req(ru == v, f"{op}: instant moved by {ru - u} us instead of {sg * tot} us", start=x.isoformat(), got=r.isoformat(), expected=exp.isoformat())
        req(T.fields(r) == T.fields(exp) and r.utcoffset() == exp.utcoffset(), f"{op}: local fields/offset are not the tz database rendering of the instant",
            got=r.isoformat(), expected=exp.isoformat())
        # inverse returns to the original instant, offset and fields
        if op in ("add", "subtract"):
            back = r.subtract(**a) if op == "add" else r.add(**a)
        elif op == "-td":
            back = r + D.timedelta(**a)
        else:
            back = r - D.timedelta(**a)
        req(T.us(back) == u and T.fields(back) == T.fields(x) and back.utcoffset() == x.utcoffset() and back.timezone_name == z,
            f"{op}: the inverse operation does not return to the original value", start=x.isoformat(), back=back.isoformat())
        nt = T.transition_between(u, v, z) or T.near_transition(u, z) is not None or T.near_transition(v, z) is not None
        return nt, ("crosses" if T.transition_between(u, v, z) else "same-side")


class Naive(Sub):
    ambient = True
    name = "naive"
    backends = ("py",)
    n = {"quick": 5000, "thorough": 100000}
    shards = {"quick": 1, "thorough": 4}
    rule = "naive DateTime: plain wall-clock arithmetic; non-trivial: crosses a day boundary or has microseconds"

    def strategy(self, ctx):
        return st.fixed_dictionaries({"w": S.uni(S.LO_U, S.HI_U), "amt": amount, "op": st.sampled_from(OPS),
                                      "fold": st.integers(0, 1)})

    def check(self, case, ctx):
        w, a, op = case["w"], case["amt"], case["op"]
        tot = total(a)
        x = pendulum.naive(*S.wall_tuple(w), fold=case["fold"])
        req(x.tzinfo is None, "naive() produced an aware value")
        sg = -1 if op in ("subtract", "-td") else 1
        v = w + sg * tot
        if not (T.MIN_US + 86400 * US <= v <= T.MAX_US - 86400 * US):
            raise Skip("result outside years 1..9999")
        r, sg = apply(x, a, op)
        req(isinstance(r, DateTime) and r.tzinfo is None, f"{op}: naive result is not a naive DateTime", got=repr(r))
        req(T.naive_us(r) == v, f"{op}: naive value not shifted on its own clock", got=r.isoformat(), expected=T.wall_from_us(v).isoformat())
        return (w // (86400 * US) != v // (86400 * US)) or tot % US != 0, "naive"


class FixedOffset(Sub):
    ambient = True
    name = "fixed_offset"
    backends = ("py",)
    n = {"quick": 4000, "thorough": 80000}
    shards = {"quick": 1, "thorough": 4}
    rule = "fixed-offset zones: instant shifts exactly, offset constant; non-trivial: non-zero offset and sub-second amount"

    def strategy(self, ctx):
        return st.fixed_dictionaries({"off": S.fixed_offset_seconds(), "u": S.uniform_instant(), "amt": amount, "op": st.sampled_from(OPS)})

    def check(self, case, ctx):
        off, u, a, op = case["off"], case["u"], case["amt"], case["op"]
        tot = total(a)
        sg = -1 if op in ("subtract", "-td") else 1
        v = u + sg * tot
        if not (T.MIN_US + 2 * 86400 * US <= v <= T.MAX_US - 2 * 86400 * US):
            raise Skip("result outside years 1..9999")
        x = pendulum.instance(T.render_fixed(u, off))
        r, sg = apply(x, a, op)
        exp = T.render_fixed(v, off)
        req(isinstance(r, DateTime) and T.us(r) == v and T.fields(r) == T.fields(exp) and r.utcoffset() == exp.utcoffset(),
            f"{op}: fixed-offset arithmetic wrong", got=r.isoformat(), expected=exp.isoformat())
        req(r.timezone_name == x.timezone_name, f"{op}: fixed timezone not kept")
        return off != 0 and tot % US != 0, "fixed"


class EveryYearFebruary(Sub):
    name = "every_year_february"
    kind = "enum"
    case_timeout = 900.0
    ambient = True
    n = {"quick": 0, "thorough": 0}
    shards = {"quick": 4, "thorough": 8}
    distinct_by_construction = True
    rule = ("EVERY year 2..9998: fixed-unit shifts that start on, land on or cross the last days of February and the year end (UTC, a -05:00 / +05:30 fixed offset "
            "whose UTC date differs from the local one, and naive), through add/subtract and +/- timedelta: a wrong leap rule in either helper backend moves the "
            "result by a day; all cases non-trivial")

    def exhaustive(self, tier):
        return True

    def cases(self, ctx, shard, nshards):
        for y in range(2, 9999):
            if y % nshards == shard:
                yield {"y": y}

    def check(self, case, ctx):
        import calendar
        y = case["y"]
        feb = calendar.monthrange(y, 2)[1]
        n = 0
        for (m, d, hh) in ((2, 28, 12), (2, feb, 12), (2, feb, 21), (2, 28, 3), (3, 1, 2), (12, 31, 22), (1, 1, 1)):
            wall = D.datetime(y, m, d, hh, 30, 15, 250000)
            for amt in ({"hours": 1}, {"hours": 24}, {"hours": -24}, {"minutes": -1}, {"seconds": 86400 * 2}, {"hours": 36, "minutes": -30, "microseconds": 1}):
                tot = total(amt)
                exp = wall + D.timedelta(microseconds=tot)
                if not 2 <= exp.year <= 9998:
                    continue
                for nm, x in (("UTC", pendulum.datetime(*T.fields(wall))), ("-05:00", pendulum.datetime(*T.fields(wall), tz=pendulum.tz.fixed_timezone(-18000))),
                              ("+05:30", pendulum.datetime(*T.fields(wall), tz=pendulum.tz.fixed_timezone(19800))), ("naive", pendulum.naive(*T.fields(wall)))):
                    n += 1
                    for op, r in (("add", x.add(**amt)), ("subtract(negated)", x.subtract(**{k: -v for k, v in amt.items()})), ("+ timedelta", x + D.timedelta(**amt)),
                                  ("timedelta +", D.timedelta(**amt) + x), ("- timedelta", x - D.timedelta(**{k: -v for k, v in amt.items()}))):
                        req(T.fields(r) == T.fields(exp) and r.utcoffset() == x.utcoffset(), f"{nm} {op}: result is not the start shifted by exactly the amount", start=x.isoformat(),
                            amt=amt, got=r.isoformat(), expected=exp.isoformat())
                    back = x.add(**amt).subtract(**amt)
                    req(T.fields(back) == T.fields(wall), f"{nm}: subtract() does not undo add()", start=x.isoformat(), amt=amt, back=back.isoformat())
        ctx.cache["n"] = ctx.cache.get("n", 0) + n
        ctx.cache["evidence_extra"] = {"inner_evaluations": ctx.cache["n"], "inner_nontrivial": ctx.cache["n"]}
        return True, "leap" if feb == 29 else "common"


SUBS = [Aware(), Naive(), FixedOffset(), EveryYearFebruary()]
