"""C07 — ISO 8601 / RFC 3339 date and time strings parse to the value they denote."""
from __future__ import annotations

import calendar
import datetime as D
import warnings

from hypothesis import strategies as st

import pendulum
from pendulum import Date, DateTime, Time
from pendulum._pendulum import parse_iso8601 as rs_parse
from pendulum.parsing.iso8601 import parse_iso8601 as py_parse
from vf.core import Skip, Sub, Violation, req

warnings.simplefilter("ignore")
RULE = ("constructive: strings are rendered from a value by an independent formatter (stdlib isocalendar/ordinal arithmetic), parsed by the "
        "pure-Python parser, the Rust parser and the full parse() stack, and compared with the source value")
ASSUMPTIONS = ["'well-formed' = the forms listed in the property, rendered with consistent basic/extended style",
               "bare 'YYYY', bare 'hhmmss' and bare 'hh' are not asserted (backends differ on acceptance; not in the statement)",
               "time-only strings with an offset are asserted on the two parsers directly; parse() documents no offset for Time"]

FIRST = D.date(1583, 1, 1).toordinal()
LAST = D.date(9999, 12, 31).toordinal()
SAMPLE_YEARS = (1583, 1600, 1900, 1999, 2000, 2004, 2015, 2016, 2020, 2021, 2026, 2100, 9999)


def norm(v):
    if isinstance(v, D.datetime):
        return ("dt", v.year, v.month, v.day, v.hour, v.minute, v.second, v.microsecond,
                None if v.tzinfo is None else int(v.utcoffset().total_seconds()))
    if isinstance(v, D.date):
        return ("d", v.year, v.month, v.day)
    if isinstance(v, D.time):
        return ("t", v.hour, v.minute, v.second, v.microsecond, None if v.tzinfo is None else int(v.utcoffset().total_seconds()))
    return ("?", repr(v))


def run(p, s, **kw):
    try:
        return norm(p(s, **kw))
    except ValueError as e:
        return ("ValueError", str(e)[:60])


def date_forms(d: D.date):
    iy, iw, iwd = d.isocalendar()
    doy = d.toordinal() - D.date(d.year, 1, 1).toordinal() + 1
    f = {"cal-ext": f"{d.year:04d}-{d.month:02d}-{d.day:02d}", "cal-basic": f"{d.year:04d}{d.month:02d}{d.day:02d}",
         "ord-ext": f"{d.year:04d}-{doy:03d}", "ord-basic": f"{d.year:04d}{doy:03d}"}
    if 1 <= iy <= 9999:
        f["wk-ext"] = f"{iy:04d}-W{iw:02d}-{iwd}"
        f["wk-basic"] = f"{iy:04d}W{iw:02d}{iwd}"
        if iwd == 1:
            f["wk-ext-noday"] = f"{iy:04d}-W{iw:02d}"
            f["wk-basic-noday"] = f"{iy:04d}W{iw:02d}"
    if d.day == 1:
        f["year-month"] = f"{d.year:04d}-{d.month:02d}"
    return f


def is_nt_date(d):
    return d.day == calendar.monthrange(d.year, d.month)[1] or d.day == 1


class DateForms(Sub):
    ambient = True
    name = "date_forms"
    kind = "enum"
    case_timeout = 900.0
    n = {"quick": 0, "thorough": 0}
    shards = {"quick": 4, "thorough": 16}
    distinct_by_construction = True
    rule = ("every date of the tier's range in each calendar/ordinal/week x basic/extended form (+ YYYY-Www, YYYY-MM): quick = 13 sample years "
            "(4750 dates), thorough = every date 1583-01-01..9999-12-31; non-trivial: first/last day of a month (ordinal/week month lookup boundaries)")

    def describe(self, case):
        d = D.date.fromordinal(case["o"])
        return {"date": d.isoformat(), "strings": date_forms(d)}

    def exhaustive(self, tier):
        return True

    def cases(self, ctx, shard, nshards):
        if ctx.thorough:
            for o in range(FIRST + shard, LAST + 1, nshards):
                yield {"o": o}
        else:
            i = 0
            for y in SAMPLE_YEARS:
                for o in range(D.date(y, 1, 1).toordinal(), D.date(y, 12, 31).toordinal() + 1):
                    i += 1
                    if i % nshards == shard:
                        yield {"o": o}

    def check(self, case, ctx):
        d = D.date.fromordinal(case["o"])
        exp = ("d", d.year, d.month, d.day)
        full = (not ctx.thorough) or case["o"] % 6 == 0
        for k, s in date_forms(d).items():
            gp, gr = run(py_parse, s), run(rs_parse, s)
            req(gp == exp, f"python parser: {k} form {s!r} does not parse to its date", got=gp, expected=exp)
            req(gr == exp, f"rust parser: {k} form {s!r} does not parse to its date", got=gr, expected=exp)
            if full:
                g = run(pendulum.parse, s)
                req(g == ("dt", d.year, d.month, d.day, 0, 0, 0, 0, 0), f"parse({s!r}) is not midnight UTC of its date", got=g)
                g = pendulum.parse(s, exact=True)
                req(type(g) is Date and norm(g) == exp, f"parse({s!r}, exact=True) is not the Date", got=repr(g))
        return is_nt_date(d), "month-edge" if is_nt_date(d) else "inner"


def offset_str(kind, sg, oh, om):
    if kind == "none":
        return "", None
    if kind == "Z":
        return "Z", 0
    v = (1 if sg == "+" else -1) * (oh * 3600 + (om if kind != "hh" else 0) * 60)
    if kind == "hh":
        return f"{sg}{oh:02d}", v
    if kind == "hhmm":
        return f"{sg}{oh:02d}{om:02d}", v
    return f"{sg}{oh:02d}:{om:02d}", v


@st.composite
def dt_form_case(draw):
    o = draw(st.one_of(st.integers(FIRST, LAST), st.sampled_from([FIRST, LAST, D.date(2016, 2, 29).toordinal(), D.date(2016, 12, 31).toordinal(),
                                                                    D.date(2021, 1, 3).toordinal(), D.date(2018, 12, 31).toordinal()])))
    dform = draw(st.sampled_from(["cal", "ord", "wk", "wk"]))
    if dform == "wk" and draw(st.booleans()):
        o = max(577736, o - D.date.fromordinal(o).weekday())       # a Monday: the week can be written without its day
    return {"o": o, "dform": dform, "ext": draw(st.booleans()), "mix": draw(st.booleans()),
            "h": draw(st.sampled_from([0, 23, 12]) | st.integers(0, 23)), "mi": draw(st.sampled_from([0, 59]) | st.integers(0, 59)),
            "s": draw(st.sampled_from([0, 59]) | st.integers(0, 59)),
            "frac": draw(st.text("0123456789", min_size=1, max_size=9)), "fsep": draw(st.sampled_from(".,")),
            "prec": draw(st.sampled_from(["h", "hm", "hms", "hmsf", "hmsf"])), "sep": draw(st.sampled_from("T ")),
            "offkind": draw(st.sampled_from(["none", "Z", "hh", "hhmm", "hh:mm"])), "sg": draw(st.sampled_from("+-")),
            "oh": draw(st.integers(0, 23)), "om": draw(st.integers(0, 59)),
            "tz": draw(st.sampled_from([None, "Europe/Paris", "America/New_York", "Asia/Tokyo"])), "tprefix": draw(st.booleans())}


def time_str(c):
    h, mi, s, ext = c["h"], c["mi"], c["s"], c["ext"]
    prec = c["prec"]
    if prec == "h":
        return f"{h:02d}", (h, 0, 0, 0)
    if prec == "hm":
        return (f"{h:02d}:{mi:02d}" if ext else f"{h:02d}{mi:02d}"), (h, mi, 0, 0)
    base = f"{h:02d}:{mi:02d}:{s:02d}" if ext else f"{h:02d}{mi:02d}{s:02d}"
    if prec == "hms":
        return base, (h, mi, s, 0)
    us = int((c["frac"] + "000000")[:6])
    return base + c["fsep"] + c["frac"], (h, mi, s, us)


class DateTimeForms(Sub):
    ambient = True
    name = "datetime_forms"
    n = {"quick": 12000, "thorough": 400000}
    shards = {"quick": 3, "thorough": 8}
    rule = ("date form x time precision (h, hm, hms, hms+fraction of 1-9 digits, '.' or ',') x {T, space} x offset {none, Z, +-hh, +-hhmm, +-hh:mm}; "
            "non-trivial: ordinal/week date, or fraction length != 6, or non-zero offset")

    def describe(self, case):
        d = D.date.fromordinal(case["o"])
        ts, tv = time_str(case)
        return {"date": d.isoformat(), "time_string": ts, "offset_kind": case["offkind"], "date_form": case["dform"] + ("-ext" if case["ext"] else "-basic")}

    def strategy(self, ctx):
        return dt_form_case()

    def check(self, case, ctx):
        c = case
        d = D.date.fromordinal(c["o"])
        forms = date_forms(d)
        key = {"cal": "cal", "ord": "ord", "wk": "wk"}[c["dform"]] + ("-ext" if c["ext"] else "-basic")
        if key not in forms:
            raise Skip("ISO week-year outside 1..9999")
        if c["dform"] == "wk" and key + "-noday" in forms and c["o"] % 2:
            key += "-noday"      # YYYY-Www / YYYYWww (the Monday of the week) followed by a time: a date form of its own in the parsers
        ds = forms[key]
        ts, tv = time_str(c)
        offkind = c["offkind"]
        if not c.get("mix"):
            # the offset in the style of the date and time ...
            if not c["ext"] and offkind == "hh:mm":
                offkind = "hhmm"
            if c["ext"] and offkind == "hhmm" and c["prec"] != "h":
                offkind = "hh:mm"
        # ... or (mix) as drawn: the property spells the offset +-hh[:mm] for basic and extended texts alike
        offs, offv = offset_str(offkind, c["sg"], c["oh"], c["om"])
        s = ds + c["sep"] + ts + offs
        exp = ("dt", d.year, d.month, d.day) + tv + (offv,)
        gp, gr = run(py_parse, s), run(rs_parse, s)
        req(gp == exp, f"python parser: {s!r} does not parse to the value it denotes", got=gp, expected=exp)
        req(gr == exp, f"rust parser: {s!r} does not parse to the value it denotes", got=gr, expected=exp)
        # full stack
        g = pendulum.parse(s)
        req(type(g) is DateTime, f"parse({s!r}) is not a DateTime", got=type(g).__name__)
        req(norm(g) == exp[:8] + (offv if offv is not None else 0,), f"parse({s!r}) wrong value", got=norm(g), expected=exp)
        ge = pendulum.parse(s, exact=True)
        req(type(ge) is DateTime and norm(ge) == norm(g), f"parse({s!r}, exact=True) differs", got=repr(ge))
        if c["tz"]:
            gt = pendulum.parse(s, tz=c["tz"])
            if offv is None:
                ref = pendulum.datetime(*exp[1:8], tz=c["tz"])
                req(norm(gt) == norm(ref) and gt.timezone_name == c["tz"], f"parse({s!r}, tz=) does not build the wall time in tz", got=repr(gt))
            else:
                req(norm(gt) == norm(g), f"parse({s!r}, tz=): explicit offset must win over tz option", got=repr(gt))
        # time-only counterpart
        tprefix = c["tprefix"] or not c["ext"] or c["prec"] == "h"
        t_s = ("T" if tprefix else "") + ts + offs
        expt = ("t",) + tv + (offv,)
        gp, gr = run(py_parse, t_s), run(rs_parse, t_s)
        req(gp == expt, f"python parser: time {t_s!r} does not parse to the value it denotes", got=gp, expected=expt)
        req(gr == expt, f"rust parser: time {t_s!r} does not parse to the value it denotes", got=gr, expected=expt)
        if offv is None:
            gt = pendulum.parse(t_s, exact=True)
            req(type(gt) is Time and (gt.hour, gt.minute, gt.second, gt.microsecond) == tv, f"parse({t_s!r}, exact=True) is not the Time", got=repr(gt))
            now = D.datetime(2031, 5, 17, 1, 2, 3)
            gn = pendulum.parse(t_s, now=now)
            req(type(gn) is DateTime and norm(gn) == ("dt", 2031, 5, 17) + tv + (0,), f"parse({t_s!r}, now=) does not combine the time with now's date", got=repr(gn))
        nt = c["dform"] != "cal" or (c["prec"] == "hmsf" and len(c["frac"]) != 6) or (offv not in (None, 0))
        return nt, f"{key}:{c['prec']}:{offkind}"


@st.composite
def rt_case(draw):
    y = draw(st.one_of(st.integers(1583, 9999), st.sampled_from([1583, 9999, 2000])))
    m = draw(st.integers(1, 12))
    d = draw(st.integers(1, calendar.monthrange(y, m)[1]))
    return {"f": [y, m, d, draw(st.integers(0, 23)), draw(st.integers(0, 59)), draw(st.integers(0, 59)),
                  draw(st.sampled_from([0, 0, 1, 999999, 123000, 100000]) | st.integers(0, 999999))],
            "off": draw(st.one_of(st.none(), st.just(0), st.integers(-1439, 1439).map(lambda x: x * 60)))}


class RoundTrip(Sub):
    ambient = True
    name = "string_roundtrip"
    n = {"quick": 8000, "thorough": 200000}
    shards = {"quick": 2, "thorough": 8}
    rule = ("parse() inverts isoformat(), str(), to_iso8601_string(), to_rfc3339_string() (us) and to_atom_string()/to_w3c_string() (s) for DateTimes "
            "in UTC / fixed offsets, years 1583..9999; non-trivial: non-zero offset or non-zero microsecond")

    def strategy(self, ctx):
        return rt_case()

    def check(self, case, ctx):
        f, off = case["f"], case["off"]
        tz = "UTC" if off is None else pendulum.tz.fixed_timezone(off)
        dt = pendulum.datetime(*f, tz=tz)
        offv = 0 if off is None else off
        for nm, s, us in (("isoformat", dt.isoformat(), True), ("str", str(dt), True), ("to_iso8601_string", dt.to_iso8601_string(), True),
                          ("to_rfc3339_string", dt.to_rfc3339_string(), True), ("to_atom_string", dt.to_atom_string(), False),
                          ("to_w3c_string", dt.to_w3c_string(), False)):
            r = pendulum.parse(s)
            expf = tuple(f) if us else tuple(f[:6]) + (0,)
            req(type(r) is DateTime and norm(r) == ("dt",) + expf + (offv,), f"parse({nm}()) does not give back the value", string=s, got=repr(r))
            gp, gr = run(py_parse, s), run(rs_parse, s)
            req(gp == gr, f"parsers disagree on {nm}() output", string=s, python=gp, rust=gr)
        return offv != 0 or f[6] != 0, "offset" if offv else "utc"


def invalid_for_year(y):
    leap = calendar.isleap(y)
    long_year = D.date(y, 12, 28).isocalendar()[1] == 53
    out = [f"{y:04d}-02-{30 if leap else 29}", f"{y:04d}02{30 if leap else 29}", f"{y:04d}-13-01", f"{y:04d}-00-10", f"{y:04d}-04-31",
           f"{y:04d}-01-00", f"{y:04d}-01-32", f"{y:04d}-000", f"{y:04d}000", f"{y:04d}-{367 if leap else 366}", f"{y:04d}{367 if leap else 366}",
           f"{y:04d}-W00-1", f"{y:04d}W001", f"{y:04d}-W00", f"{y:04d}-W{54 if long_year else 53}-1", f"{y:04d}W{54 if long_year else 53}1",
           f"{y:04d}-W{54 if long_year else 53}", f"{y:04d}-W01-0", f"{y:04d}-W01-8", f"{y:04d}W019", f"{y:04d}-W10-9",
           f"{y:04d}-06-15T24:00:00", f"{y:04d}-06-15T12:60:00", f"{y:04d}-06-15T12:00:60", f"{y:04d}-02-{30 if leap else 29}T10:00:00Z"]
    return out


class Impossible(Sub):
    ambient = True
    name = "impossible_dates"
    kind = "enum"
    case_timeout = 900.0
    n = {"quick": 0, "thorough": 0}
    shards = {"quick": 2, "thorough": 8}
    distinct_by_construction = True
    rule = "per year: Feb 29/30, month 0/13, day 0/32, Apr 31, ordinal 0 / 366 (common) / 367, week 0 / 53 (short year) / 54, weekday 0/8/9, hour 24, minute/second 60 must be rejected with ValueError by both parsers and by parse(); quick = 300 years incl. century cases, thorough = every year 1583..9999"

    def exhaustive(self, tier):
        return tier == "thorough"

    def cases(self, ctx, shard, nshards):
        if ctx.thorough:
            years = range(1583, 10000)
        else:
            years = sorted(set(list(range(1583, 1600)) + list(range(1890, 2110)) + [2400, 9999, 9996, 4000] + list(range(3000, 3060))))
        for i, y in enumerate(years):
            if i % nshards == shard:
                yield {"y": y}

    def check(self, case, ctx):
        for s in invalid_for_year(case["y"]):
            for nm, p in (("python parser", py_parse), ("rust parser", rs_parse), ("parse()", pendulum.parse)):
                try:
                    r = p(s)
                except ValueError:
                    continue
                raise Violation(f"{nm} accepts the impossible {s!r}", got=repr(r))
        ctx.cache["inv"] = ctx.cache.get("inv", 0) + 25
        ctx.cache["evidence_extra"] = {"inner_evaluations": ctx.cache["inv"], "inner_nontrivial": ctx.cache["inv"]}
        return False, "year-row"


SUBS = [DateForms(), DateTimeForms(), RoundTrip(), Impossible()]
