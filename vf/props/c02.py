"""C02 — Wall-clock construction is normalised by the documented DST rules."""
from __future__ import annotations

import datetime as D
import warnings

from hypothesis import strategies as st

import pendulum
from pendulum import DateTime
from pendulum.tz.exceptions import AmbiguousTime, NonExistingTime
from vf import oracle_tz as T
from vf import strategies as S
from vf.core import Skip, Sub, Violation, req

warnings.simplefilter("ignore")
US = 10**6
RULE = ("oracle: pre-image set P(w) = instants whose native zoneinfo rendering has wall fields w; unique -> that instant, "
        "repeated -> max/min P by fold, skipped -> wall +- gap length by fold")
ASSUMPTIONS = ["CPython zoneinfo + installed tz data define which wall times exist once, twice or never",
               "compound geometries (>2 pre-images, or a shifted wall time that lands in another transition) are only checked for validity"]

ENTRIES = ["datetime(name)", "datetime(Timezone)", "datetime(ZoneInfo)", "create", "local", "set", "at", "on", "replace",
           "replace(fold)", "parse", "convert", "Timezone.datetime", "naive.in_timezone", "convert(pendulum naive)", "naive.replace(tzinfo)",
           "naive.replace(tzinfo, fold)", "local(name)", "local(TZ env)", "parse(date only)", "parse(to minutes)", "parse(to seconds)",
           "replace(changed fields only)", "set(changed fields only)"]

# a text without a time of day / seconds / fraction denotes the wall time with those fields zero: the wall time is truncated first, then spelled the short way
PARSE_TRUNC = {"parse(date only)": 86400 * US, "parse(to minutes)": 60 * US, "parse(to seconds)": US}


def short_text(entry, f, w):
    y, mo, d, hh, mi, ss, _ = f
    pick = (w // (86400 * US)) % 4
    nd = D.date(y, mo, d)
    if entry == "parse(date only)":
        iy, iw, iwd = nd.isocalendar()
        forms = ["%04d-%02d-%02d" % (y, mo, d), "%04d%02d%02d" % (y, mo, d), "%04d-%03d" % (y, nd.timetuple().tm_yday)]
        if 1000 <= iy <= 9999:
            forms.append("%04d-W%02d-%d" % (iy, iw, iwd))
        return forms[pick % len(forms)]
    if entry == "parse(to minutes)":
        return ["%04d-%02d-%02dT%02d:%02d", "%04d-%02d-%02d %02d:%02d", "%04d%02d%02dT%02d%02d", "%04d-%02d-%02dT%02d:%02d"][pick] % (y, mo, d, hh, mi)
    return ["%04d-%02d-%02dT%02d:%02d:%02d", "%04d-%02d-%02d %02d:%02d:%02d", "%04d%02d%02dT%02d%02d%02d", "%04d-%02d-%02dT%02d:%02d:%02d.0"][pick] % (y, mo, d, hh, mi, ss)


def wt(w):
    return S.wall_tuple(w)


def find_unique(zone, w0, step, fold_any=True):
    """a wall value near w0 (stepping by `step` us) that exists exactly once in zone"""
    for k in range(1, 40):
        w = w0 + k * step
        if not (S.LO_U <= w <= S.HI_U):
            continue
        if T.classify_wall(w, zone)[0] == "unique":
            return w
    return None


def build(entry, zone, w, fold, roe):
    """returns (value, effective_fold, supports_roe). Raises Skip if the entry cannot express the case."""
    f = wt(w)
    tz = pendulum.timezone(zone)
    if entry == "datetime(name)":
        return pendulum.datetime(*f, tz=zone, fold=fold, raise_on_unknown_times=roe), fold
    if entry == "datetime(Timezone)":
        return pendulum.datetime(*f, tz=tz, fold=fold, raise_on_unknown_times=roe), fold
    if entry == "datetime(ZoneInfo)":
        return pendulum.datetime(*f, tz=T.zi(zone), fold=fold, raise_on_unknown_times=roe), fold
    if entry == "create":
        return DateTime.create(*f, tz=zone, fold=fold, raise_on_unknown_times=roe), fold
    if roe:
        if entry == "convert":
            return tz.convert(D.datetime(*f, fold=fold), raise_on_unknown_times=True), fold
        if entry == "convert(pendulum naive)":
            return tz.convert(pendulum.naive(*f, fold=fold), raise_on_unknown_times=True), fold
        raise Skip("entry point has no raise_on_unknown_times")
    if entry == "local":
        pendulum.set_local_timezone(tz)
        try:
            return pendulum.local(*f), 1
        finally:
            pendulum.set_local_timezone()
    if entry == "local(name)":
        pendulum.set_local_timezone(zone)      # the documented str form: the local zone designated by its name
        try:
            return pendulum.local(*f), 1
        finally:
            pendulum.set_local_timezone()
    if entry == "local(TZ env)":
        import os
        import importlib
        LT = importlib.import_module("pendulum.tz.local_timezone")
        old, old_cached = os.environ.get("TZ"), LT._local_timezone
        os.environ["TZ"] = zone
        LT._local_timezone = None               # forget the cached system zone: the next lookup reads the environment
        try:
            req(pendulum.local_timezone().name == zone, "local_timezone() does not resolve TZ=<zone name> to that zone", got=pendulum.local_timezone().name)
            return pendulum.local(*f), 1
        finally:
            LT._local_timezone = old_cached
            if old is None:
                os.environ.pop("TZ", None)
            else:
                os.environ["TZ"] = old
    if entry == "convert":
        return tz.convert(D.datetime(*f, fold=fold)), fold
    if entry == "Timezone.datetime":
        return tz.datetime(*f), 1
    # a naive *pendulum* value carries its own fold into the zone it is given (the native twin does the same)
    if entry == "convert(pendulum naive)":
        return tz.convert(pendulum.naive(*f, fold=fold)), fold
    if entry == "naive.replace(tzinfo)":
        return pendulum.naive(*f, fold=fold).replace(tzinfo=tz), fold
    if entry == "naive.replace(tzinfo, fold)":
        return pendulum.naive(*f, fold=1 - fold).replace(tzinfo=tz, fold=fold), fold
    if entry == "parse":
        if f[0] < 1000:
            raise Skip("parse entry restricted to 4-digit years")
        s = "%04d-%02d-%02dT%02d:%02d:%02d.%06d" % tuple(f)
        return pendulum.parse(s, tz=zone), 1
    if entry in PARSE_TRUNC:
        if f[0] < 1000:
            raise Skip("parse entry restricted to 4-digit years")
        return pendulum.parse(short_text(entry, f, w), tz=zone), 1
    if entry == "naive.in_timezone":
        return pendulum.naive(*f).in_timezone(zone), 1
    if entry in ("replace(changed fields only)", "set(changed fields only)"):
        # an existing value that shares as many leading fields with the target as possible (same minute, else same hour, same day, ...): only the
        # fields that differ are passed - the result is still the construction of the complete new wall time
        first = (w // 7) % 4
        bw = None
        for unit in ([US, 60 * US, 3600 * US, 86400 * US][first:] + [86400 * US]):
            span = unit * {US: 60, 60 * US: 60, 3600 * US: 24, 86400 * US: 28}[unit]
            lo = w - w % span
            for k in range(1, 60):
                cand = lo + (w % span + k * unit * (1 if k % 2 else -1) * ((k + 1) // 2)) % span if unit != 86400 * US else w + k * unit * (1 if k % 2 else -1)
                if S.LO_U <= cand <= S.HI_U and cand != w and T.classify_wall(cand, zone)[0] == "unique":
                    bw = cand
                    break
            if bw is not None:
                break
        if bw is None:
            raise Skip("no unique base wall time nearby")
        base = pendulum.datetime(*wt(bw), tz=zone, fold=fold)
        req(T.fields(base) == tuple(wt(bw)), "base instance was not built with the given unique wall fields", got=base.isoformat())
        names = ("year", "month", "day", "hour", "minute", "second", "microsecond")
        kw = {n: v for n, v, b in zip(names, f, wt(bw)) if v != b}
        return (base.replace(**kw) if entry.startswith("replace") else base.set(**kw)), base.fold
    # entries that start from an existing instance: its fold is the effective fold
    if entry in ("set", "replace", "replace(fold)"):
        bw = find_unique(zone, w, 37 * 3600 * US + 17 * US)
    elif entry == "at":
        day0 = w - w % (86400 * US)
        bw = None
        for h in (12, 15, 9, 18, 6, 21, 3, 1):
            cand = day0 + h * 3600 * US
            if T.classify_wall(cand, zone)[0] == "unique":
                bw = cand
                break
    else:  # on
        bw = find_unique(zone, w, 86400 * US) or find_unique(zone, w, -86400 * US)
    if bw is None:
        raise Skip("no unique base wall time nearby")
    base = pendulum.datetime(*wt(bw), tz=zone, fold=fold)
    req(T.fields(base) == tuple(wt(bw)), "base instance was not built with the given unique wall fields", got=base.isoformat())
    bf = base.fold
    if entry == "set":
        return base.set(year=f[0], month=f[1], day=f[2], hour=f[3], minute=f[4], second=f[5], microsecond=f[6]), bf
    if entry == "at":
        return base.at(f[3], f[4], f[5], f[6]), bf
    if entry == "on":
        return base.on(f[0], f[1], f[2]), bf
    if entry == "replace":
        return base.replace(year=f[0], month=f[1], day=f[2], hour=f[3], minute=f[4], second=f[5], microsecond=f[6]), bf
    if entry == "replace(fold)":
        return base.replace(year=f[0], month=f[1], day=f[2], hour=f[3], minute=f[4], second=f[5], microsecond=f[6], fold=fold), fold
    raise AssertionError(entry)


def check_construct(entry, zone, w, fold, roe):
    if entry in PARSE_TRUNC:
        w -= w % PARSE_TRUNC[entry]
    kind, pre, gap = T.classify_wall(w, zone)
    try:
        got, eff = build(entry, zone, w, fold, roe)
        exc = None
    except NonExistingTime:
        got, exc, eff = None, "NonExistingTime", fold
    except AmbiguousTime:
        got, exc, eff = None, "AmbiguousTime", fold
    if roe:
        want = "NonExistingTime" if len(pre) == 0 else "AmbiguousTime" if len(pre) >= 2 else None
        req(exc == want, f"{entry}: raise_on_unknown_times raised {exc}, expected {want} for a {kind} wall time",
            wall=wt(w), zone=zone)
        if exc:
            return kind
    else:
        req(exc is None, f"{entry}: raised {exc} without raise_on_unknown_times")
    if entry not in ("convert", "Timezone.datetime"):
        req(isinstance(got, DateTime), f"{entry}: result is not a DateTime", got=type(got).__name__)
        req(got.timezone_name == zone, f"{entry}: zone not kept", got=got.timezone_name)
    else:
        req(isinstance(got.tzinfo, pendulum.tz.Timezone) and got.tzinfo.name == zone, f"{entry}: tzinfo is not the zone")
    gu = T.us(got)
    back = T.render(gu, zone)
    req(T.fields(back) == T.fields(got) and back.utcoffset() == got.utcoffset(),
        f"{entry}: result is not a valid local time (its UTC round trip renders differently)",
        got=got.isoformat(), roundtrip=back.isoformat())
    if isinstance(got, DateTime):
        rt = got.in_timezone("UTC").in_timezone(zone)
        req(T.fields(rt) == T.fields(got) and rt.utcoffset() == got.utcoffset(), f"{entry}: value does not survive a round trip through UTC",
            got=got.isoformat(), roundtrip=rt.isoformat())
    ek, eu = T.expected_construct(w, zone, eff)
    if eu is None:
        return "compound"
    expd = T.render(eu, zone)
    req(gu == eu and T.fields(got) == T.fields(expd) and got.utcoffset() == expd.utcoffset(),
        f"{entry}: {kind} wall time with fold={eff} normalised to the wrong value",
        wall=wt(w), zone=zone, got=got.isoformat(), expected=expd.isoformat(), preimages=len(pre))
    if kind == "unique":
        req(T.naive_us(got) == w, f"{entry}: existing wall time was changed", got=got.isoformat())
    return kind


@st.composite
def case_strategy(draw):
    z = draw(S.zones())
    w = draw(st.one_of(S.wall_near_transition(z), S.wall_near_transition(z), S.wall_near_transition(z), S.uni(S.LO_U, S.HI_U)))
    entry = draw(st.sampled_from(ENTRIES))
    roe = draw(st.booleans()) if entry in ENTRIES[:4] + ["convert"] else False
    return {"zone": z, "w": w, "fold": draw(st.integers(0, 1)), "roe": roe, "entry": entry}


class Construct(Sub):
    ambient = True
    name = "construct"
    n = {"quick": 20000, "thorough": 500000}
    shards = {"quick": 4, "thorough": 8}
    rule = "non-trivial: wall time skipped or repeated, or within one gap length of a transition edge"

    def describe(self, case):
        kind, pre, gap = T.classify_wall(case["w"], case["zone"])
        return {"wall": T.wall_from_us(case["w"]).isoformat(), "zone": case["zone"], "wall_time_is": kind}

    def strategy(self, ctx):
        return case_strategy()

    def check(self, case, ctx):
        z, w = case["zone"], case["w"]
        kind = check_construct(case["entry"], z, w, case["fold"], case["roe"])
        near = kind != "unique"
        if not near:
            for off in T.candidate_offsets(w, z):
                if T.near_transition(w - off * US, z) is not None:
                    near = True
        return near, f"{kind}:{'roe' if case['roe'] else 'norm'}"


class Fixed(Sub):
    ambient = True
    name = "fixed_offset"
    backends = ("py",)
    n = {"quick": 4000, "thorough": 60000}
    shards = {"quick": 1, "thorough": 4}
    rule = "fixed offsets: always exactly the given fields; non-trivial: non-zero offset"

    def strategy(self, ctx):
        return st.fixed_dictionaries({"off": st.one_of(S.fixed_offset_seconds(), st.integers(-86399, 86399)),
                                      "w": S.uni(S.LO_U, S.HI_U), "fold": st.integers(0, 1), "roe": st.booleans(),
                                      "entry": st.sampled_from(["datetime", "convert", "FixedTimezone.datetime", "set", "replace"])})

    def check(self, case, ctx):
        off, w, fold, roe, entry = case["off"], case["w"], case["fold"], case["roe"], case["entry"]
        tz = pendulum.tz.fixed_timezone(off)
        f = wt(w)
        if entry == "datetime":
            got = pendulum.datetime(*f, tz=tz, fold=fold, raise_on_unknown_times=roe)
        elif entry == "convert":
            got = tz.convert(D.datetime(*f, fold=fold), raise_on_unknown_times=roe)
        elif entry == "FixedTimezone.datetime":
            got = tz.datetime(*f)
        elif entry == "set":
            got = pendulum.datetime(2000, 1, 1, tz=tz).set(*f)
        else:
            got = pendulum.datetime(2000, 1, 1, tz=tz).replace(*f, fold=fold)
        req(T.fields(got) == tuple(f), f"{entry}: fixed-offset wall fields changed", got=got.isoformat())
        req(got.utcoffset() == D.timedelta(seconds=off), f"{entry}: offset is not the fixed offset", got=str(got.utcoffset()))
        req(T.us(got) == w - off * US, f"{entry}: wrong instant")
        return off != 0, "fixed"


class AllGaps(Sub):
    ambient = True
    """Every enumerated gap and overlap of every zone x edge probes x folds x flags."""
    name = "all_gaps_overlaps"
    kind = "enum"
    case_timeout = 900.0
    backends = ("rust",)
    n = {"quick": 0, "thorough": 0}
    shards = {"quick": 4, "thorough": 16}
    distinct_by_construction = True
    rule = ("every enumerated transition: wall probes {lo-1us, lo, lo+1us, mid, hi-1us, hi, hi+1us} x fold x raise flag through "
            "pendulum.datetime and Timezone.convert; quick visits every 10th transition (rotating with the seed)")

    def exhaustive(self, tier):
        return tier == "thorough"

    def cases(self, ctx, shard, nshards):
        k = 0
        for i, z in enumerate(T.all_zones()):
            if i % nshards != shard:
                continue
            for t, a, b in T.transitions(z):
                k += 1
                if not ctx.thorough and (k + ctx.seed) % 10:
                    continue
                lo, hi = (t + min(a, b)) * US, (t + max(a, b)) * US
                for w in (lo - 1, lo, lo + 1, (lo + hi) // 2, hi - 1, hi, hi + 1):
                    if S.LO_U <= w <= S.HI_U:
                        for fold in (0, 1):
                            for roe in (False, True):
                                yield {"zone": z, "w": w, "fold": fold, "roe": roe}

    def check(self, case, ctx):
        k1 = check_construct("datetime(name)", case["zone"], case["w"], case["fold"], case["roe"])
        check_construct("convert", case["zone"], case["w"], case["fold"], case["roe"])
        if not case["roe"]:
            check_construct("set", case["zone"], case["w"], case["fold"], False)
        return True, k1


SUBS = [Construct(), Fixed(), AllGaps()]
