"""C19 — Interval.range() steps from the start without drift and stays inside."""
from __future__ import annotations

import calendar
import datetime as D
import itertools
import warnings

from hypothesis import strategies as st

import pendulum
from vf import oracle_tz as T
from vf import strategies as S
from vf.core import Known, Skip, Sub, Violation, req

warnings.simplefilter("ignore")
US = 10**6
RULE = ("oracle: reference sequence start.add(unit=k*n) / start.subtract(unit=k*n), k = 0, 1, ... each computed from the start, cut at the end by "
        "comparing instants; every value also compared with an independent model that never calls add() (elapsed units move the instant, calendar units "
        "move the wall clock with day clamping and resolve it on the post-transition side); plus a closed-form month/year model for naive values")
ASSUMPTIONS = ["cases where comparing a generated value with the end by wall clock and by instant give different answers (same-zone values inside an "
               "overlap) are skipped and counted: the statement's 'not beyond the end' is ambiguous there",
               "for inverted non-absolute intervals 'x in interval' is false for every x (start > end): only the explicit equivalence "
               "x in interval <=> start <= x <= end is asserted there"]
UNITS = ["years", "months", "weeks", "days", "hours", "minutes", "seconds", "microseconds"]
ZONES = ["UTC", "Europe/Paris", "America/New_York", "Australia/Lord_Howe", "Asia/Kolkata", "America/Sao_Paulo", "Pacific/Apia", "Europe/London", "Europe/Lisbon", None, None]
OVERLAP_ZONES = ["Europe/Moscow", "Europe/Volgograd", "Europe/Paris", "Europe/London", "Australia/Lord_Howe", "America/Caracas", "Asia/Pyongyang", "Antarctica/Troll",
                 "America/St_Johns", "Europe/Lisbon", "Africa/Casablanca", "Asia/Kathmandu", "Pacific/Kiritimati", "America/Sao_Paulo"]
APPROX = dict(years=365 * 86400, months=30 * 86400, weeks=7 * 86400, days=86400, hours=3600, minutes=60, seconds=1)


def key(x):
    if isinstance(x, D.datetime):
        return (x.year, x.month, x.day, x.hour, x.minute, x.second, x.microsecond, str(x.utcoffset()))
    return (x.year, x.month, x.day)


def inst(x):
    if isinstance(x, D.datetime):
        return T.us(x) if x.tzinfo is not None else T.naive_us(x)
    return D.date(x.year, x.month, x.day).toordinal()


def wallv(x):
    return T.naive_us(x) if isinstance(x, D.datetime) else inst(x)


ELAPSED = dict(hours=3600 * US, minutes=60 * US, seconds=US, microseconds=1)


def model_value(s, unit, amount, zone, isdate):
    """instant (us; ordinal for Date; wall us for naive) of s shifted by `amount` units, or None where the model does not commit (compound transitions)"""
    if unit in ELAPSED:
        return inst(s) + amount * ELAPSED[unit]
    if unit in ("days", "weeks"):
        dd = amount * (7 if unit == "weeks" else 1)
        if isdate:
            return inst(s) + dd
        w = wallv(s) + dd * 86400 * US
    else:
        tm = s.year * 12 + s.month - 1 + amount * (12 if unit == "years" else 1)
        yy, mm = divmod(tm, 12)
        if not 1 <= yy <= 9999:
            return None
        dd = min(s.day, calendar.monthrange(yy, mm + 1)[1])
        if isdate:
            return D.date(yy, mm + 1, dd).toordinal()
        w = T.naive_us(D.datetime(yy, mm + 1, dd, s.hour, s.minute, s.second, s.microsecond))
    if not zone:
        return w
    return T.expected_construct(w, zone, 1)[1]


@st.composite
def case_strategy(draw, max_steps):
    unit = draw(st.sampled_from(UNITS))
    isdate = unit in ("years", "months", "weeks", "days") and draw(st.integers(0, 3)) == 0
    zone = draw(st.sampled_from(ZONES))
    y = draw(st.one_of(st.integers(1950, 2050), st.integers(1950, 2050), st.integers(1950, 2050), st.sampled_from([2, 3, 4, 9995, 9996, 9997, 9998]), st.sampled_from(S.EDGE_YEARS), st.integers(2, 9997)))
    m = draw(st.integers(1, 12))
    d = min(draw(st.sampled_from([1, 15, 28, 29, 30, 31, 31, 30, 29])), calendar.monthrange(y, m)[1])
    tr = T.transitions(zone) if zone else ()
    if tr and draw(st.integers(0, 2)) == 0:
        # start within three weeks of one of the zone's offset changes (either side), so that short sequences cross it; changes of a day or more
        # (a calendar day that does not exist) are as likely as all the others together
        big = [x for x in tr if abs(x[2] - x[1]) >= 86400]
        pool = big if big and draw(st.booleans()) else tr
        w = D.datetime(1970, 1, 1) + D.timedelta(seconds=pool[draw(st.integers(0, len(pool) - 1))][0] + draw(st.integers(-21 * 86400, 21 * 86400)))
        if 1902 <= w.year <= 2100:
            y, m, d = w.year, w.month, w.day
    steps = draw(st.one_of(st.integers(0, 5), st.integers(0, 60), st.integers(0, max_steps)))
    if tr and not isdate and draw(st.integers(0, 5)) == 0:
        # a short interval hugging an offset change: start within two gap/overlap lengths before it, a handful of minute/second steps across it
        # (both endpoints share the tz object but not the offset, and are closer together than the change is long)
        t, oa, ob = tr[draw(st.integers(0, len(tr) - 1))]
        g = max(abs(ob - oa), 60)
        w = D.datetime(1970, 1, 1) + D.timedelta(seconds=t + oa - draw(st.integers(1, 2 * g)))
        if 1902 <= w.year <= 2100:
            unit = draw(st.sampled_from(["minutes", "seconds", "hours", "microseconds"]))
            n_ = draw(st.integers(1, 12))
            steps = draw(st.integers(1, 40))
            return {"unit": unit, "n": n_, "steps": steps, "date": False, "start": [w.year, w.month, w.day, w.hour, w.minute, w.second, draw(st.sampled_from([0, 1, 999999]))],
                    "zone": zone, "sign": draw(st.sampled_from([1, 1, -1])), "absolute": draw(st.booleans()), "extra": draw(st.one_of(st.just(0), st.floats(0.01, 0.95))),
                    "direct_iter": False}
    if draw(st.integers(0, 11)) == 0:
        # a grid whose step divides the length of a repeated stretch of wall clock (any zone, DST or a change of standard time): every wall time in
        # it is stepped on twice, once per occurrence, and both are distinct values of the sequence
        zz = draw(st.one_of(st.sampled_from(OVERLAP_ZONES), S.zones_with_transitions()))
        ov = [x for x in T.transitions(zz) if x[2] < x[1] and x[1] - x[2] < 86400]
        if ov:
            t, oa, ob = ov[draw(st.integers(0, len(ov) - 1))]
            g = oa - ob
            cands = [(u_, n_) for u_, sec in (("hours", 3600), ("minutes", 60), ("seconds", 1)) for n_ in range(1, 61) if g % (sec * n_) == 0]
            exact = [(u_, g // sec) for u_, sec in (("hours", 3600), ("minutes", 60), ("seconds", 1)) if g % sec == 0]   # consecutive values share their wall time
            gu, n_ = draw(st.one_of(st.sampled_from(exact), st.sampled_from(cands)))
            stepsec = n_ * APPROX[gu]
            before = draw(st.integers(0, 6))
            w = D.datetime(1970, 1, 1) + D.timedelta(seconds=t + oa - g - before * stepsec + draw(st.sampled_from([0, 0, 1, stepsec - 1])))
            if 1902 <= w.year <= 2100:
                return {"unit": gu, "n": n_, "steps": before + draw(st.integers(1, min(3 * g // stepsec + 4, 400))), "date": False,
                        "start": [w.year, w.month, w.day, w.hour, w.minute, w.second, draw(st.sampled_from([0, 0, 1, 999999]))], "zone": zz,
                        "sign": draw(st.sampled_from([1, 1, -1])), "absolute": draw(st.booleans()), "extra": draw(st.one_of(st.just(0), st.floats(0.01, 0.95))),
                        "direct_iter": False}
    if unit in ("years", "months"):
        steps = min(steps, 7000 if unit == "years" else 60000)
    return {"unit": unit, "n": draw(st.integers(1, 12)), "steps": steps, "date": isdate, "start": [y, m, d, draw(st.integers(0, 23)), draw(st.integers(0, 59)),
            draw(st.integers(0, 59)), draw(st.sampled_from([0, 0, 1, 999999]))], "zone": zone, "sign": draw(st.sampled_from([1, 1, -1])),
            "absolute": draw(st.booleans()), "extra": draw(st.one_of(st.just(0), st.floats(0.01, 0.95))), "direct_iter": draw(st.booleans())}


class Range(Sub):
    ambient = True
    name = "range"
    n = {"quick": 12000, "thorough": 80000}
    shards = {"quick": 6, "thorough": 16}
    rule = ("intervals forward / inverted / absolute x DateTime (9 zones, naive) / Date x 8 units x step 1..12 x 0..N steps (N = 2000 quick, 10^4 thorough), end exactly "
            "reachable or strictly between two steps; non-trivial: month/year stepping from day >= 29, or inverted, or absolute, or the sequence crosses a UTC-offset change")

    def strategy(self, ctx):
        return case_strategy(10000 if ctx.thorough else 2000)

    def check(self, case, ctx):
        unit, n, steps, sgn = case["unit"], case["n"], case["steps"], case["sign"]
        y, m, d, hh, mi, ss, us = case["start"]
        z = case["zone"]
        if case["date"]:
            start = pendulum.date(y, m, d)
        elif z:
            start = pendulum.datetime(y, m, d, hh, mi, ss, us, tz=z)
        else:
            start = pendulum.naive(y, m, d, hh, mi, ss, us)
        try:
            endp = start.add(**{unit: sgn * n * steps})
            if case["extra"] and not case["date"] and unit != "microseconds":
                endp = endp.add(seconds=sgn * int(APPROX[unit] * n * case["extra"]))
            elif case["extra"] and case["date"] and unit != "days":
                endp = endp.add(days=sgn * max(1, int(APPROX[unit] // 86400 * n * case["extra"]) - 1))
        except (OverflowError, ValueError):
            raise Skip("end outside years 1..9999")
        if not 2 <= endp.year <= 9998:
            raise Skip("end outside years 2..9998 (aware arithmetic next to the representable limits is outside the asserted domain)")
        absolute = case["absolute"]
        iv = pendulum.interval(start, endp, absolute=absolute)
        s, e = iv.start, iv.end
        forward = absolute or not iv.invert
        if inst(s) != inst(start if not (absolute and iv.invert) else endp):
            raise Violation("interval.start is not the expected endpoint", got=str(s))
        if (wallv(s) <= wallv(e)) != (inst(s) <= inst(e)):
            raise Skip("endpoints' wall order differs from their instant order (overlap)")
        limit = 12000
        it = iv.range(unit, n) if not (case["direct_iter"] and unit == "days" and n == 1) else iter(iv)
        got = list(itertools.islice(it, limit + 1))
        req(len(got) <= limit, "iteration does not terminate within the expected number of steps", unit=unit, n=n, produced=len(got))
        # reference sequence, each value computed from the start
        exp = []
        k = 0
        while k <= limit:
            try:
                v = s.add(**{unit: k * n}) if forward else s.subtract(**{unit: k * n})
            except (OverflowError, ValueError):
                break
            by_inst = inst(v) <= inst(e) if forward else inst(v) >= inst(e)
            by_wall = wallv(v) <= wallv(e) if forward else wallv(v) >= wallv(e)
            if by_inst != by_wall:
                raise Skip("a step's wall order relative to the end differs from its instant order (overlap)")
            if not by_inst:
                break
            if not exp or key(v) != key(exp[-1]):
                # a step onto a calendar day that does not exist in the zone (Pacific/Apia 2011-12-30) is moved by add() onto the next value:
                # the same value is yielded once (former known finding K-C19-1, repaired)
                exp.append(v)
            k += 1
        req([key(x) for x in got] == [key(x) for x in exp], "range() differs from [start shifted by k*n units, computed from the start]", start=str(s), end=str(e),
            unit=unit, n=n, produced=len(got), expected=len(exp),
            first_diff=next(((i, str(a), str(b)) for i, (a, b) in enumerate(zip(got, exp)) if key(a) != key(b)), None))
        req(all(type(x) is type(s) for x in got), "range() yields values of another type")
        # independent model of 'start shifted by k*n units' (does not call add()): elapsed units move the instant, calendar units move the
        # wall clock (day clamped to the month's length) and an aware result is the documented resolution of that wall time (post-transition side)
        idx = range(len(got)) if len(got) <= 600 else sorted(set(list(range(200)) + list(range(len(got) - 200, len(got))) + list(range(0, len(got), 37))))
        dirn = 1 if forward else -1
        mseq = []     # the model's sequence, a repeated value (step onto a wholly skipped day) kept once; one element beyond len(got)
        k = 0
        while len(mseq) <= len(got) and k <= len(got) + 4:
            try:
                mv = model_value(s, unit, dirn * k * n, z if not case["date"] else None, case["date"])
            except (OverflowError, ValueError):
                mv = None
            if mv is None or not mseq or mseq[-1][1] != mv:
                mseq.append((k, mv))
            k += 1
        for j in idx:
            if j < len(mseq) and mseq[j][1] is not None:
                req(inst(got[j]) == mseq[j][1], "range() value differs from the independently computed start shifted by k*n units", k=mseq[j][0], got=str(got[j]), start=str(s),
                    unit=unit, n=n, expected_instant_us=mseq[j][1])
        if z and not case["date"]:
            # each value is a DateTime of the zone in its normal form: the wall clock and offset the zone shows at that instant
            for j in idx:
                back = T.render(inst(got[j]), z)
                req(T.fields(back) == T.fields(got[j]) and back.utcoffset() == got[j].utcoffset(), "range() yields a wall time / offset that does not exist in the zone at that instant",
                    got=str(got[j]), zone_shows=back.isoformat(), k=j)
        if got:
            req(key(got[0]) == key(s), "first value is not the start", got=str(got[0]))
        for a, b in zip(got, got[1:]):
            if inst(a) == inst(b) and z and not case["date"] and unit in ("years", "months", "weeks", "days") and \
                    any(ob - oa >= 86400 and t * US <= inst(a) < (t + ob - oa) * US for t, oa, ob in T.transitions(z)):
                raise Known("K-C19-1", "a calendar step that lands on a wholly skipped day yields the day after it twice")
            req((inst(a) < inst(b)) if forward else (inst(a) > inst(b)), "sequence is not strictly monotone in the interval's direction", a=str(a), b=str(b))
        # ... and the sequence does not stop early: by the model, the step after the last yielded value is beyond the end (or not representable)
        if len(got) <= limit:
            nxt = mseq[len(got)][1] if len(mseq) > len(got) else None
            if nxt is not None:
                lim_lo, lim_hi = (D.date(1, 1, 1).toordinal(), D.date(9999, 12, 31).toordinal()) if case["date"] else (T.MIN_US, T.MAX_US)
                if lim_lo <= nxt <= lim_hi:
                    req(nxt > inst(e) if forward else nxt < inst(e), "range() stops although the next step is still inside the interval", produced=len(got), start=str(s), end=str(e),
                        unit=unit, n=n, last=str(got[-1]) if got else None)
        # closed-form model for month/year stepping of naive/Date values: no clamping drift
        if unit in ("years", "months") and (case["date"] or not z) and got:
            j = len(got) - 1
            tm = s.year * 12 + s.month - 1 + (1 if forward else -1) * j * n * (12 if unit == "years" else 1)
            yy, mm = divmod(tm, 12)
            dd = min(s.day, calendar.monthrange(yy, mm + 1)[1])
            req((got[j].year, got[j].month, got[j].day) == (yy, mm + 1, dd), "month/year stepping drifted (clamping accumulated)", got=str(got[j]), expected=(yy, mm + 1, dd), k=j)
        reach = any(inst(x) == inst(e) for x in exp)
        req(reach == (bool(got) and inst(got[-1]) == inst(e)), "end is yielded iff it is reachable: violated", end=str(e), last=str(got[-1]) if got else None)
        if forward or absolute:
            for x in got[:50] + got[-50:]:
                req(x in iv, "a yielded value is not contained in the interval", value=str(x), interval=repr(iv))
        probes = list(got[:3]) + list(got[-3:]) + [s, e]
        try:
            probes += [s.add(days=1), s.subtract(days=1), e.add(days=1), e.subtract(days=1)]
        except (OverflowError, ValueError):
            pass
        for p in probes:
            # containment is a statement about the time line: start <= x <= end as instants.  Python's own <= between two aware values that share a tzinfo
            # object compares wall clocks, which inside a repeated hour is another order - the literal expression is asserted where the two agree
            req((p in iv) == (inst(iv.start) <= inst(p) <= inst(iv.end)), "'x in interval' is not equivalent to start <= x <= end on the time line", x=str(p),
                interval=repr(iv))
            if (wallv(iv.start) <= wallv(p)) == (inst(iv.start) <= inst(p)) and (wallv(p) <= wallv(iv.end)) == (inst(p) <= inst(iv.end)):
                req((p in iv) == (iv.start <= p <= iv.end), "'x in interval' is not equivalent to the expression start <= x <= end", x=str(p))
        crosses = bool(z) and got and T.transition_between(inst(got[0]), inst(got[-1]), z) if (z and not case["date"]) else False
        nt = (unit in ("years", "months") and d >= 29) or not forward or absolute or bool(crosses)
        lab = ("date" if case["date"] else "naive" if not z else "aware") + ":" + unit + (":inverted" if not forward else "") + (":absolute" if absolute else "")
        return nt, lab


SUBS = [Range()]
