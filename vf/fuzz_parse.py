"""atheris (libFuzzer) target for pendulum.parse(): second engine of C17.

usage: python -m vf.fuzz_parse OUT.json BACKEND [libFuzzer args...]
The semantic oracle lives inside the target; failures are *recorded* (bucketed by
exception type + innermost pendulum frame) instead of crashing, so one campaign
collects every bucket.  atexit does not run under libFuzzer: the result file is
rewritten on every new bucket and every 5000 executions.
"""
from __future__ import annotations

import json
import os
import sys
import traceback

out_path, backend = sys.argv[1], sys.argv[2]
fuzz_argv = [sys.argv[0]] + sys.argv[3:]

from vf import env  # noqa: E402

env.ensure_deps(need_atheris=True)
import atheris  # noqa: E402

os.environ["PENDULUM_EXTENSIONS"] = "1" if backend == "rust" else "0"
sys.path.insert(0, os.path.join(env.REPO, "src"))
so = env.build_rust()
sys.meta_path.insert(0, env._RustFinder(so))
with atheris.instrument_imports(include=["pendulum"]):
    import pendulum
    import pendulum.parsing
    import pendulum.parser
from vf.props import c17  # noqa: E402  (imports pendulum itself: already loaded + instrumented)

state = {"execs": 0, "buckets": {}, "returned": 0, "rejected": 0, "nontrivial": 0}
OPTS = [{}, {"exact": True}, {"strict": False}, {"tz": "Europe/Paris"}, {"day_first": True, "strict": False}, {"exact": True, "tz": "America/New_York"},
        {"year_first": False, "strict": False}, {}]


def flush():
    tmp = out_path + ".tmp"
    with open(tmp, "w") as f:
        json.dump(state, f)
    os.replace(tmp, out_path)


def target(data):
    fdp = atheris.FuzzedDataProvider(data)
    opts = OPTS[fdp.ConsumeIntInRange(0, len(OPTS) - 1)]
    s = fdp.ConsumeUnicodeNoSurrogates(48)
    state["execs"] += 1
    try:
        verdict = c17.oracle(s, opts)
        if verdict == "value":
            state["returned"] += 1
        else:
            state["rejected"] += 1
        if c17.looks_structured(s):
            state["nontrivial"] += 1
    except c17.Violation as v:
        key = v.detail.get("bucket", v.msg)[:200]
        if key not in state["buckets"]:
            state["buckets"][key] = {"s": s, "opts": opts, "msg": v.msg, "count": 0}
            state["buckets"][key]["count"] += 1
            flush()
        else:
            state["buckets"][key]["count"] += 1
            if state["buckets"][key]["count"] >= 300:
                # a pervasive failure: nothing more to learn, and a panicking/raising target slows libFuzzer to a crawl
                state["stopped_early"] = key
                flush()
                os._exit(0)
    except BaseException as e:  # harness problem: record distinctly
        key = "HARNESS:" + type(e).__name__ + ":" + traceback.format_exc()[-300:]
        state["buckets"].setdefault(key, {"s": s, "opts": opts, "msg": key, "count": 0})["count"] += 1
        flush()
    if state["execs"] % 5000 == 0:
        flush()


atheris.Setup(fuzz_argv, target)
flush()
atheris.Fuzz()
